#!/usr/bin/env python3
"""tools/keepseed.py <seed-dir> <name> <tier> <check-log>: copies a confirmed
seeded change into /verif/seeded/<name>/ and records what was run."""
import json, os, shutil, sys, re
src, name, tier, log = sys.argv[1:5]
dst = os.path.join(os.path.dirname(os.path.dirname(os.path.abspath(__file__))), "seeded", name)
os.makedirs(dst, exist_ok=True)
for f in ("patch.diff", "demo_test.go"):
    shutil.copy(os.path.join(src, f), os.path.join(dst, f))
meta = json.load(open(os.path.join(src, "meta.json")))
txt = open(log).read()
viol = re.findall(r"^VIOLATION .*\n\s+(.*)$", txt, flags=re.M)
m = re.search(r"(\d+) violation\(s\) in (\d+) distinct", txt)
meta["confirmed_by_me"] = {
    "how": "tools/seedtest.sh on a scratch git worktree of /repo HEAD (removed afterwards): demo passes on the original code; patch applies, builds, vets; the unedited 41-test suite passes with the patch (with and without -tags verif); demo fails with the patch",
    "check_run": "./check %s %s --repo <scratch worktree with the patch applied>" % (meta["property"], tier),
    "check_exit_code": 1 if viol else 0,
    "first_violations": [v[:300] for v in viol[:3]],
    "violations_total": int(m.group(1)) if m else 0,
}
json.dump(meta, open(os.path.join(dst, "meta.json"), "w"), indent=1)
print("kept", dst, "->", (viol[:1] or ["NOT DETECTED"])[0][:120])

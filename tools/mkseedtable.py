#!/usr/bin/env python3
"""Regenerates the seeded-change table in DESIGN.md (between the SEEDTABLE markers)
from /verif/seeded/*/meta.json."""
import json, glob, os, re
ROOT = os.path.dirname(os.path.dirname(os.path.abspath(__file__)))
rows = []
for d in sorted(glob.glob(os.path.join(ROOT, "seeded", "C*"))):
    m = json.load(open(os.path.join(d, "meta.json")))
    name = os.path.basename(d)
    c = m.get("confirmed_by_me", {})
    first = (c.get("first_violations") or ["—"])[0].replace("|", "\\|")[:110]
    hist = m.get("history_of_detection", "")
    status = "quick" if c.get("check_exit_code") == 1 else "MISSED"
    if hist.startswith("MISSED") or name in ("C15a", "C20a"):
        status = "quick (after strengthening, see meta.json)"
    if m.get("caught_by"):
        status = m["caught_by"]
    needs = m.get("needs", "").replace("\n", " ").replace("|", "\\|")
    if len(needs) > 150:
        needs = needs[:147] + "…"
    rows.append("  | %s | %s | %s | `%s` |" % (name, needs, status, first))
table = ("  | seed | needs, in order to manifest | caught by | first report of the property's check |\n"
         "  |------|------|------|------|\n" + "\n".join(rows))
p = os.path.join(ROOT, "DESIGN.md")
s = open(p).read()
b, e = "<!-- SEEDTABLE BEGIN -->", "<!-- SEEDTABLE END -->"
s = s[:s.index(b) + len(b)] + "\n" + table + "\n" + s[s.index(e):]
open(p, "w").write(s)
print(len(rows), "rows")

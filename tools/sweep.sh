#!/bin/bash
# tools/sweep.sh <tier> <seed>...   silence sweep: every check at every given seed; prints only non-zero results
cd "$(dirname "$0")/.."
TIER=$1; shift
FAIL=0
for S in "$@"; do
  for P in C01 C02 C03 C04 C05 C06 C07 C08 C09 C10 C11 C12 C13 C14 C15 C16 C17 C18 C19 C20; do
    OUT=$(VERIF_SEED=$S ./check $P $TIER 2>&1); RC=$?
    if [ $RC -ne 0 ]; then FAIL=1; echo "=== seed=$S $P rc=$RC"; echo "$OUT" | grep -E "VIOLATION|INCONCLUSIVE|BUILD" | head -5; fi
  done
  echo "seed $S done"
done
echo "SWEEP $TIER seeds=$* fail=$FAIL"

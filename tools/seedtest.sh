#!/bin/bash
# tools/seedtest.sh <seed-dir> [tier] [props...]
# Confirms a seeded change (patch.diff + demo_test.go + meta.json) on a scratch
# worktree of /repo and runs the check(s) of its property against it.
# Nothing is ever applied to /repo itself; the scratch worktree is removed.
set -u
export GOFLAGS=-mod=mod GOPROXY=off GOSUMDB=off GOTOOLCHAIN=local
SEED=$(readlink -f "$1"); TIER=${2:-quick}; shift; shift || true
PROPS="$@"
[ -z "$PROPS" ] && PROPS=$(python3 -c "import json,sys;print(json.load(open('$SEED/meta.json'))['property'])")
NAME=$(basename "$SEED")
WT=/tmp/sv/$NAME
rm -rf "$WT"; mkdir -p /tmp/sv
git -C /repo worktree prune
git -C /repo worktree add -q --detach "$WT" HEAD || exit 3
cleanup() { git -C /repo worktree remove --force "$WT" 2>/dev/null; rm -rf "$WT"; }
trap cleanup EXIT
cd "$WT"
RACE=""
grep -q -- "-race" "$SEED/meta.json" && RACE="-race"
# demo on the original code
cp "$SEED/demo_test.go" "$WT/demo_test.go"
if go test $RACE -count=1 -run 'TestSeedDemo' . >/tmp/sv/$NAME.orig.log 2>&1; then echo "demo passes without change: yes"; else echo "demo passes without change: NO"; tail -5 /tmp/sv/$NAME.orig.log; fi
rm -f "$WT/demo_test.go"
git apply "$SEED/patch.diff" || { echo "PATCH DOES NOT APPLY"; exit 3; }
if go build ./... && go vet . >/dev/null 2>&1; then echo "builds+vets with change: yes"; else echo "builds with change: NO"; fi
if go test -count=1 ./... >/tmp/sv/$NAME.suite.log 2>&1; then echo "existing suite passes with change: yes"; else echo "existing suite passes with change: NO"; tail -5 /tmp/sv/$NAME.suite.log; fi
if go test -tags verif -count=1 ./... >/dev/null 2>&1; then echo "existing suite passes with change and hooks: yes"; else echo "existing suite passes with change and hooks: NO"; fi
cp "$SEED/demo_test.go" "$WT/demo_test.go"
FAILED=no
for i in 1 2 3 4 5; do
  if ! go test $RACE -count=1 -run 'TestSeedDemo' . >/tmp/sv/$NAME.mut.log 2>&1; then FAILED=yes; break; fi
  [ -z "$RACE" ] && break
done
echo "demo fails with change: $FAILED"
rm -f "$WT/demo_test.go"
cd /verif
# the build cache grows by a race build per scratch worktree: prune it when the disk runs low
FREE=$(df --output=avail -k / | tail -1)
if [ "$FREE" -lt 30000000 ]; then go clean -cache >/dev/null 2>&1; fi
for P in $PROPS; do
  ./check $P $TIER --repo "$WT" > /tmp/sv/$NAME.$P.$TIER.log 2>&1; RC=$?
  echo "check $P $TIER rc=$RC  $(grep -c '^VIOLATION' /tmp/sv/$NAME.$P.$TIER.log) violation line(s)"
  grep -A1 '^VIOLATION' /tmp/sv/$NAME.$P.$TIER.log | grep -v '^VIOLATION' | grep -v '^--' | head -4 | cut -c1-260
  grep '^INCONCLUSIVE\|BUILD-ERROR' /tmp/sv/$NAME.$P.$TIER.log | head -3 | cut -c1-260
done
rm -rf /verif/.bin/alt-$(printf '%s' "$WT" | sha1sum | cut -c1-10) 2>/dev/null || true

#!/bin/bash
# tools/benigntest.sh <patch.diff> <name> [tier] [props...]
# False-alarm test: applies a behaviour-preserving change (one for which every
# property still holds) to a scratch worktree of /repo, confirms that it builds and
# that the unedited suite passes with and without the hooks, and runs every check
# (or the named ones) against it. Any VIOLATION / non-zero exit is printed; the
# caller decides whether the change really preserves the property (then the check
# is wrong) or not (then the change is not benign). Nothing touches /repo itself.
set -u
export GOFLAGS=-mod=mod GOPROXY=off GOSUMDB=off GOTOOLCHAIN=local
PATCH=$(readlink -f "$1"); NAME=$2; TIER=${3:-quick}; shift; shift; shift || true
PROPS="$@"
[ -z "$PROPS" ] && PROPS="C01 C02 C03 C04 C05 C06 C07 C08 C09 C10 C11 C12 C13 C14 C15 C16 C17 C18 C19 C20"
WT=/tmp/sv/$NAME
rm -rf "$WT"; mkdir -p /tmp/sv
git -C /repo worktree prune
git -C /repo worktree add -q --detach "$WT" HEAD || exit 3
cleanup() { git -C /repo worktree remove --force "$WT" 2>/dev/null; rm -rf "$WT"; rm -rf /verif/.bin/alt-$(printf '%s' "$WT" | sha1sum | cut -c1-10) 2>/dev/null; }
trap cleanup EXIT
cd "$WT"
git apply "$PATCH" || { echo "$NAME: PATCH DOES NOT APPLY"; exit 3; }
if go build ./... && go vet . >/dev/null 2>&1 && go vet -tags verif . >/dev/null 2>&1; then :; else echo "$NAME: builds/vets with change: NO"; exit 3; fi
if go test -count=1 ./... >/tmp/sv/$NAME.suite.log 2>&1; then :; else echo "$NAME: existing suite passes with change: NO"; tail -5 /tmp/sv/$NAME.suite.log; exit 3; fi
if go test -tags verif -count=1 ./... >/dev/null 2>&1; then :; else echo "$NAME: existing suite passes with change and hooks: NO"; exit 3; fi
cd /verif
ALARMS=0
for P in $PROPS; do
  ./check $P $TIER --repo "$WT" > /tmp/sv/$NAME.$P.$TIER.log 2>&1; RC=$?
  if [ $RC -ne 0 ]; then
    ALARMS=$((ALARMS+1))
    echo "$NAME: check $P $TIER rc=$RC  $(grep -c '^VIOLATION' /tmp/sv/$NAME.$P.$TIER.log) violation line(s)"
    grep -A1 '^VIOLATION' /tmp/sv/$NAME.$P.$TIER.log | grep -v '^VIOLATION' | grep -v '^--' | head -6 | cut -c1-300
    grep '^INCONCLUSIVE\|BUILD-ERROR' /tmp/sv/$NAME.$P.$TIER.log | head -3 | cut -c1-300
  fi
done
echo "$NAME: $ALARMS check(s) not silent"

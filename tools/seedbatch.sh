#!/bin/bash
# tools/seedbatch.sh <suffix> [tier]: run seedtest on every delivered, not yet tested seed /tmp/seeds/C??<suffix>
cd "$(dirname "$0")/.."
SUF=$1; TIER=${2:-quick}
for d in /tmp/seeds/C??$SUF; do
  n=$(basename $d); P=${n:0:3}
  [ -f $d/meta.json ] && [ -f $d/patch.diff ] && [ -f $d/demo_test.go ] || continue
  [ -f /tmp/sv/$n.$P.$TIER.log ] && continue
  echo "=== $n"; tools/seedtest.sh $d $TIER 2>&1 | grep -v conda | grep -v "^builds\|hooks: yes"
done

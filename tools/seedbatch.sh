#!/bin/bash
# tools/seedbatch.sh <suffix> [tier]: run seedtest (4 in parallel) on every delivered, not yet tested seed /tmp/seeds/C??<suffix>
cd "$(dirname "$0")/.."
SUF=$1; TIER=${2:-quick}
mkdir -p /tmp/sv
LIST=""
for d in /tmp/seeds/C??$SUF; do
  n=$(basename $d); P=${n:0:3}
  [ -f $d/meta.json ] && [ -f $d/patch.diff ] && [ -f $d/demo_test.go ] || continue
  [ -f /tmp/sv/$n.$P.$TIER.log ] && continue
  LIST="$LIST $n"
done
[ -z "$LIST" ] && exit 0
echo $LIST | tr ' ' '\n' | xargs -P 4 -I{} sh -c "tools/seedtest.sh /tmp/seeds/{} $TIER > /tmp/sv/{}.batch.out 2>&1"
for n in $LIST; do echo "=== $n"; grep -v conda /tmp/sv/$n.batch.out | grep -v "^builds\|hooks: yes"; done

#!/usr/bin/env python3
"""Writes /verif/MANIFEST.json from the table below (kept in one place so the
manifest stays valid while checks are added)."""
import json, os, subprocess
ROOT = os.path.dirname(os.path.dirname(os.path.abspath(__file__)))

# id: (technique, level text, level note, design ref)
CHECKS = {
 "C14": ("canary-arena monitor over generated shapes (runtime oracle on the real code)",
         "Every channel view of every generated (type, channel count, window) shape is read, written and index-queried against a canary arena whose cells are re-read through the verif hook; held on the executions listed in the evidence.",
         "Oracle position arithmetic C*i+c is the harness's own; arena re-read through VerifData (hook); Go runtime bounds checks.",
         "6/C14"),
 "C13": ("shape/zero-fill/address-interval monitor over generated allocations (runtime oracle on the real code)",
         "Every generated allocation (26 element types incl. named ones) is checked for shape, bit depth, zero fill over its capacity and, in groups of live allocations, for disjoint address intervals and stamp isolation; held on the executions listed in the evidence.",
         "Addresses and capacity contents come from the verif hook; expected bit depth is 8*sizeof(T) computed by reflection in the harness.",
         "6/C13"),
 "C16": ("exact-arithmetic (math/big) reference monitor over all 64 depths and boundary-dense + seeded values",
         "All 64 depths are enumerated; bounds, clipping (identity, nearest bound, idempotence, order) and Scale for 11 integer types are compared with math/big on every generated value; complete on the depth axis, sampled on the value axis.",
         "math/big is the trusted oracle; Scale only asserted where 2^(h-l) fits the type.",
         "6/C16"),
 "C17": ("exact-rational reference monitor with tie-hunting inputs",
         "Duration/Events compared with exact rationals within the derived float allowance, monotonicity on sorted arguments and the count->duration->count round trip, over standard, seeded integer and fractional rates with inputs chosen closest to rounding ties.",
         "big.Rat on the float64's exact value; allowance 0.5+3*2^-53*|exact| derived from the implementation's two roundings.",
         "6/C17"),
 "C20": ("grid enumeration of degenerate shapes x entry points under recover() with inertness oracle",
         "The finite grid of degenerate allocators x every exported entry point is executed; any panic, non-zero count, transferred sample or changed caller slice is a violation. Thorough tier enumerates all 169 type pairs and 169 conversion instantiations.",
         "Go runtime panics are observed through recover(); buffer contents re-read through the verif hook.",
         "6/C20"),
 "C02": ("reference-model monitor (Go-slice model + address identity from the hook) over enumerated and hostile slice ranges",
         "All (start,end) pairs in and around the capacity of every small root shape, nested up to depth 4, plus overflow-provoking 64-bit arguments, are executed against the real Slice; panic/no-panic, shape, base address, contents over the child's capacity and write visibility both ways are compared with the model.",
         "Validity is decided by the model without multiplication; addresses and beyond-length contents come from the verif hook.",
         "6/C02"),
 "C03": ("reference-model monitor over generated append configurations and chains",
         "Every generated Append (destination kinds, source kinds incl. self and same-storage sources, fit classes, chains) is followed by a comparison of every live view and every storage with the Go-slice model, including in-place vs. growth, capacity alignment, freshness of new storage and untouched old storage.",
         "Domain restricted exactly as the property states; growth capacity adopted after constraint checks; storage re-read through the verif hook.",
         "6/C03"),
 "C04": ("reference-model monitor over call-count classes on windows of stamped parents",
         "AppendSample is executed below, at and far beyond capacity on windows of larger buffers; after every call value, position, length, unchanged capacity/base address, alias visibility and every other cell of the storage are compared with the model.",
         "Storage re-read through the verif hook.",
         "6/C04"),
 "C01": ("canary-arena monitor over all 169 (+7 named-type) transfer pairs x 4 transfer functions with generated shapes and input lengths; cross-process digest comparison",
         "Every generated Write/Read/WriteStriped/ReadStriped call and cross-form round trip runs against a stamped parent arena and sentinel-filled caller slices; positions, values, zero fill, returned frame count, untouched cells and unchanged shape are compared with independently computed expectations.",
         "Values restricted to those exactly representable in both types; oracle arithmetic (C*i+c, integer ceil) independent of the library; arena re-read through the verif hook.",
         "6/C01"),
 "C05": ("two-arena monitor with metamorphic single-sample reference over all 169 (+31 named-type) conversion instantiations; cross-process digest comparison (results must not depend on process history)",
         "Every generated conversion call is checked for the common-prefix extent, return value, untouched source/destination remainder and unchanged shapes, and each written position against the same function applied to that sample alone; float->float values against exact preservation / nearest float32.",
         "Position independence uses the library itself as reference on a 1x1 buffer (numeric correctness is C06-C09's subject).",
         "6/C05"),
 "C12": ("bounded-exhaustive and random history exploration against a Go-slice reference model",
         "Every operation sequence up to depth 3 (quick) / 4 (thorough, plus depth 5 over a reduced alphabet) from every small root shape is re-executed on the real code and compared with the model over all live views and storages; long seeded random histories over larger shapes are checked after every step.",
         "Append restricted to C03's domain, Slice to valid ranges; growth capacity adopted after constraint checks; storages re-read through the verif hook.",
         "6/C12"),
 "C15": ("grid enumeration of shape mismatches under recover() with before/after arena comparison",
         "Every guarded entry point is called with every mismatching channel-count / slice-count / capacity combination of the grid on stamped operands; the call must panic and both operands, caller slices and the pool must be bit-identical afterwards.",
         "Panic observed through recover(); operand storage re-read through the verif hook; pool state observed through subsequent Gets.",
         "6/C15"),
 "C06": ("exhaustive / boundary-dense enumeration in amplitude order (multi-channel window buffers, reverse-order and leading-zero passes, cross-process digests) with an order-and-levels oracle on the real conversions",
         "All 121 fixed->fixed instantiations; every 8/16-bit source value in every tier and every 32-bit source value in the thorough tier (9.4e10 conversions), sampled for 64-bit sources; monotonicity along the ascending enumeration plus the three reference levels.",
         "Amplitude arithmetic in int64 (amplitudes of all supported formats fit); 1-channel buffers of 16384 samples per call.",
         "6/C06"),
 "C07": ("exhaustive / boundary-dense enumeration (multi-channel window buffers, reverse-order and leading-zero passes, cross-process digests) with exact integer oracle (floor/ceil, identity, widening round trip through two real calls)",
         "Same enumeration as C06; narrowing results must be floor or ceil of a/2^d, equal depth must be the identity on amplitudes, and every widening pair composed with the library's matching narrowing conversion must return the original code.",
         "Amplitude arithmetic in int64; the round trip uses the library's own inverse instantiation.",
         "6/C07"),
 "C08": ("exhaustive float32 / boundary-dense float64 enumeration (multi-channel window buffers, reverse-order and leading-zero passes, cross-process digests) with exact 128-bit product oracle cross-checked against big.Rat",
         "All 22 float->fixed instantiations; every non-NaN float32 bit pattern in the thorough tier (4.7e10 conversions), boundary-dense + seeded float64 lists; clipping, zero, linear-within-one-step and monotonicity are decided from the exact product.",
         "Exact product from the float's integer mantissa/exponent; the fast oracle is cross-checked against big.Rat on >=10^4 inputs per run; NaN excluded.",
         "6/C08"),
 "C09": ("exhaustive / boundary-dense enumeration with exact-rational accuracy oracle and real round trips; known finding suppressed by exact input set",
         "All 22 fixed->float instantiations; range, reference levels, (strict) monotonicity, accuracy within one step + float rounding, and the round trip through the real inverse conversion, complete for 8/16-bit sources and (thorough) 32-bit sources. The UnsignedAsFloat divisor defect is a recorded known finding keyed by instantiation, kind and input set; anything else is a violation.",
         "Accuracy decided in float64 outside a 2^-20 guard band and in big.Rat inside it and for 64-bit sources.",
         "6/C09"),
 "C10": ("history monitor on one pool (fresh-allocation oracle + address-interval registry + outstanding-buffer shadows), plain and -race builds",
         "Seeded get/use/put/GC histories with up to 8 outstanding buffers; every Get is compared with a fresh allocation over its whole capacity and checked for storage disjointness from all outstanding buffers, whose contents are re-verified after every step. Reuse is counted (floor), not asserted.",
         "Object/storage identity from pinned addresses (verif hook); the -race build is used for sync.Pool's random drop behaviour and its race reports.",
         "6/C10"),
 "C11": ("Go race detector + ownership stamps + freshness + interval-overlap scan + porcupine linearizability check of recorded Get/Put histories",
         "Many short concurrent histories over G x GOMAXPROCS x allocator-sharing configurations; decided by the race detector (quiet mode), by stamps re-read by the holder, by the fresh-buffer oracle, and offline by an overlap scan and porcupine against a held/free model per storage key. Evidence lists configurations, hand-offs and distinct ownership sequences seen.",
         "Schedules are those the Go scheduler produced; porcupine timeout = inconclusive; a race self-test child proves the detector and report parsing are live.",
         "6/C11"),
 "C18": ("allocation-counter monitor (runtime.MemStats) around steady-state operations on real typed buffers, with a detected control",
         "Every hot-path operation of every element type, all 169 transfer pairs and all 169 conversions is executed 200 times on pre-allocated buffers with GC off and GOMAXPROCS(1); the malloc delta (minimum of 3 repetitions) must be 0, Slice at most one constant-size header per call.",
         "Plain build; an allocating control operation must be seen in every run or the run is inconclusive.",
         "6/C18"),
 "C19": ("Go race detector + sequential-equivalence digests over shared-reader / disjoint-writer workloads",
         "Readers run every read-only entry point on one shared buffer while writers obtain their own Slice concurrently and write inside it; the race detector decides races, and reader digests plus final buffer contents are compared with a sequential execution of the same seeded work.",
         "Schedules are those the Go scheduler produced (GOMAXPROCS 1/4/16, random yields); race self-test child as in C11.",
         "6/C19"),
}
PENDING = {}

def main():
    props = [json.loads(l) for l in open(os.path.join(ROOT, "properties.jsonl"))]
    hooks_commits = []
    try:
        out = subprocess.run(["git", "-C", "/repo", "log", "--format=%H %s"], stdout=subprocess.PIPE, text=True).stdout
        hooks_commits = [l.split()[0] for l in out.splitlines() if l.split(" ", 1)[1].startswith("verif:")]
    except Exception:
        pass
    checks = []
    na = []
    for p in props:
        pid = p["id"]
        if pid in CHECKS:
            tech, text, note, ref = CHECKS[pid]
            checks.append({
                "property_id": pid,
                "quick_cmd": "./check %s quick" % pid,
                "thorough_cmd": "./check %s thorough" % pid,
                "evidence_file": "/verif/evidence/%s.json" % pid,
                "replay_cmd_template": "./check --replay {path}",
                "engine": "vh",
                "level_claimed": {"category": "exploration", "text": text, "design_ref": "DESIGN.md section " + ref},
                "level_note": note,
                "technique": tech,
            })
        else:
            na.append({"property_id": pid, "reason": PENDING.get(pid, "monitor not built yet in this revision (runtime monitoring applies; see DESIGN.md section 6)")})
    m = {
        "version": 1,
        "setup_cmd": "./check --setup",
        "hooks": {
            "guard": "verif",
            "enable": "go build -tags verif (the harness module replaces pipelined.dev/signal with /repo and is always built with -tags verif)",
            "baseline_off_cmd": "cd /repo && GOFLAGS=-mod=mod GOPROXY=off GOSUMDB=off GOTOOLCHAIN=local go test -json -vet=off -count=1 -timeout 25m ./...",
            "source_commits": hooks_commits,
            "add_only": True,
        },
        "engines": [{"name": "vh", "path": "/verif/harness", "serves_properties": sorted(CHECKS),
                     "kind_free_text": "Go harness (module verifharness, replace => /repo) run as child processes by the python driver ./check; plain and -race builds; porcupine for recorded pool histories"}],
        "checks": checks,
        "notes": "Technique family: runtime monitoring and sanitizers. ./check <ID> <tier> rebuilds the harness against /repo's working tree on every call. Exit 0 held / 1 violation / 2 inconclusive. Known findings: /verif/known_findings.txt.",
        "not_applicable": na,
    }
    json.dump(m, open(os.path.join(ROOT, "MANIFEST.json"), "w"), indent=1)
    try:
        import jsonschema
        jsonschema.validate(m, json.load(open("/root/.vp/MANIFEST.schema.json")))
        print("MANIFEST.json valid;", len(checks), "checks,", len(na), "not claimed")
    except ImportError:
        print("MANIFEST.json written (jsonschema not importable, not validated)")

if __name__ == "__main__":
    main()

#!/bin/bash
# tools/seedall.sh [tier]: mutation regression — every kept seeded change must be reported (exit 1) by the check
# named in its meta.json (caught_by overrides the property). Uses scratch worktrees of /repo, never /repo itself.
cd "$(dirname "$0")/.."
TIER=${1:-quick}
MISS=0
for d in seeded/C*; do
  n=$(basename $d)
  P=$(python3 -c "import json;m=json.load(open('$d/meta.json'));cb=m.get('caught_by','');print(cb.split()[0] if cb else m['property'])")
  OUT=$(tools/seedtest.sh $d $TIER $P 2>&1 | grep "^check")
  echo "$n: $OUT"
  echo "$OUT" | grep -q "rc=1" || { MISS=$((MISS+1)); echo "   ^^^ NOT REPORTED"; }
done
echo "SEEDALL tier=$TIER missed=$MISS"

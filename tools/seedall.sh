#!/bin/bash
# tools/seedall.sh [tier] [parallel]: mutation regression — every kept seeded change must be reported (exit 1) by the
# check named in its meta.json (caught_by overrides the property). Uses scratch worktrees of /repo, never /repo itself.
cd "$(dirname "$0")/.."
TIER=${1:-quick}; PAR=${2:-3}
one() {
  d=$1; TIER=$2
  n=$(basename $d)
  P=$(python3 -c "import json;m=json.load(open('$d/meta.json'));cb=m.get('caught_by','');print(cb.split()[0] if cb else m['property'])")
  OUT=$(tools/seedtest.sh $d $TIER $P 2>&1 | grep "^check")
  if echo "$OUT" | grep -q "rc=1"; then echo "$n: $OUT"; else echo "$n: $OUT   ^^^ NOT REPORTED"; fi
}
export -f one
ls -d seeded/C* | xargs -P $PAR -I{} bash -c "one {} $TIER" | tee /tmp/seedall.$$.out
MISS=$(grep -c "NOT REPORTED" /tmp/seedall.$$.out); rm -f /tmp/seedall.$$.out
echo "SEEDALL tier=$TIER missed=$MISS"

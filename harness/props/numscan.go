package props

import (
	"fmt"
	"math"
	"math/big"
	"sort"
	"sync/atomic"

	"pipelined.dev/signal"
	"verifharness/core"
	"verifharness/dyn"
)

// scanner pushes raw sample carriers through one conversion instantiation in
// chunks, using 1-channel buffers, and hands back the raw results.
type scanner struct {
	cv       *dyn.ConvOp
	ch       int
	src, dst dyn.Buf
	out      []uint64
	rev, tmp []uint64
	// panicked holds the message of the first conversion call that panicked
	panicked string
	calls    int
	chk      []uint64
	pre      *dyn.ConvOp
	pres     []*dyn.ConvOp
	// fillVia 1: the samples are put in through a second view of the source
	// operand's storage, never through the operand object itself (which keeps
	// whatever it remembers from the conversion before)
	fillVia int
}

// scanSecondView counts the conversions whose source was filled through a second view only.
var scanSecondView int64

// scanPartial counts the conversions whose operands ended in a partly filled frame.
var scanPartial int64

// scanPreWritten counts the conversions whose source was last written as a whole by another conversion.
var scanPreWritten int64

// scanShortDst counts the extra conversions into a destination shorter than the source.
var scanShortDst int64

// scanSameParent counts the scanners whose two operands are windows of one buffer.
var scanSameParent int64

func flushScanObs(c *core.Ctx) {
	c.Obs("conversions_on_operands_ending_in_a_partial_frame", atomic.SwapInt64(&scanPartial, 0))
	c.Obs("same_type_scans_between_two_windows_of_one_buffer", atomic.SwapInt64(&scanSameParent, 0))
	c.Obs("conversions_into_a_shorter_destination_with_spare_capacity", atomic.SwapInt64(&scanShortDst, 0))
	c.Obs("conversions_of_a_source_last_written_by_another_conversion_and_then_through_a_second_view", atomic.SwapInt64(&scanPreWritten, 0))
	c.Obs("reconversions_of_one_source_object_refilled_through_a_second_view_only", atomic.SwapInt64(&scanSecondView, 0))
}

const chunkN = 1 << 14

func newScanner(cv *dyn.ConvOp) *scanner { return newScannerCh(cv, 1) }

// operand makes a buffer of `frames` frames reached in one of three ways:
// 0: a window (Slice view) of a larger allocated buffer, starting at a later
// frame and with spare capacity behind it; 1: a buffer recycled through a
// pool (Get, used, Put, Get again); 2: a buffer grown to its size by Append.
// What holds for a freshly allocated buffer must hold for all of them.
func operand(t *dyn.TypeOps, ch, frames, how int) dyn.Buf {
	switch how % 3 {
	case 1:
		pool := t.PoolAlloc(signal.Allocator{Channels: ch, Length: frames, Capacity: frames})
		var b dyn.Buf
		for i := 0; i < 4; i++ { // in the plain build the pool hands the same object back
			b = pool.Get()
			if b.Len() > 0 {
				b.SetSample(0, t.FromInt(1))
			}
			pool.Put(b)
		}
		return pool.Get()
	case 2:
		b := t.Alloc(signal.Allocator{Channels: ch, Length: 1, Capacity: 1})
		for b.Length() < frames {
			n := min(frames-b.Length(), 4096)
			b.Append(t.Alloc(signal.Allocator{Channels: ch, Length: n, Capacity: n}))
		}
		return b
	}
	parent := t.Alloc(signal.Allocator{Channels: ch, Length: frames + 3, Capacity: frames + 5})
	return parent.Slice(2, 2+frames)
}

// newScannerCh uses buffers with ch channels (the interleaved positions are
// filled in order, so the channel count must not matter to the results).
func newScannerCh(cv *dyn.ConvOp, ch int) *scanner { return newScannerHow(cv, ch, 0) }

// newScannerHow additionally chooses how the two operands were obtained.
func newScannerHow(cv *dyn.ConvOp, ch, how int) *scanner {
	frames := (chunkN + ch - 1) / ch
	src, dst := operand(cv.S, ch, frames, how), operand(cv.D, ch, frames, how/3)
	if cv.S == cv.D && how%2 == 0 {
		// a same-type conversion between two different, equally long and
		// disjoint windows of ONE buffer (the source first)
		parent := cv.S.Alloc(signal.Allocator{Channels: ch, Length: 2*frames + 6, Capacity: 2*frames + 6})
		src, dst = parent.Slice(1, 1+frames), parent.Slice(frames+3, 2*frames+3)
		atomic.AddInt64(&scanSameParent, 1)
	}
	return &scanner{cv: cv, ch: ch,
		src: src,
		dst: dst,
		out: make([]uint64, chunkN), rev: make([]uint64, chunkN), tmp: make([]uint64, chunkN)}
}

// conv converts len(in) <= chunkN samples; the result slice is reused.
func (s *scanner) conv(in []uint64) []uint64 {
	n := len(in)
	src, dst := s.src, s.dst
	if frames := (n + s.ch - 1) / s.ch; frames < s.src.Length() {
		src, dst = s.src.Slice(0, frames), s.dst.Slice(0, frames)
	}
	if rem := n % s.ch; rem != 0 {
		// the samples end in the middle of a frame: both operands get exactly
		// n samples (whole frames by Slice, the rest appended one by one)
		src, dst = s.src.Slice(0, n/s.ch), s.dst.Slice(0, n/s.ch)
		if p, msg := core.Guard(func() {
			for i := 0; i < rem; i++ {
				src.AppendSample(s.cv.S.FromInt(0))
				dst.AppendSample(s.cv.D.FromInt(0))
			}
		}); p && s.panicked == "" {
			s.panicked = msg
		}
		atomic.AddInt64(&scanPartial, 1)
	}
	s.calls++
	if s.calls%2 == 0 && n%s.ch == 0 {
		// every other call: the whole destination buffer (longer than the source)
		dst = s.dst
	}
	if s.fillVia == 1 && n%s.ch == 0 && src.Length() > 0 {
		s.cv.S.Fill(src.Slice(0, src.Length()), in)
		atomic.AddInt64(&scanSecondView, 1)
	} else if s.calls%8 == 5 && n%s.ch == 0 && src.Length() > 0 {
		// the source operand was last written as a whole by another library
		// conversion (as its destination); the samples to convert are then put
		// in through a second view of the same storage, not through the operand
		if s.pres == nil {
			for _, o := range dyn.AllConvs() {
				// one per conversion function (the narrowest source type of each)
				if o.D == s.cv.S && o.S != o.D && !o.S.Named && (len(s.pres) == 0 || s.pres[len(s.pres)-1].Fn != o.Fn) {
					s.pres = append(s.pres, o)
				}
			}
		}
		s.pre = nil
		if len(s.pres) > 0 {
			s.pre = s.pres[(s.calls/8)%len(s.pres)]
		}
		if s.pre != nil {
			psrc := s.pre.S.Alloc(signal.Allocator{Channels: s.ch, Length: src.Length(), Capacity: src.Length()})
			if p, msg := core.Guard(func() { s.pre.Call(psrc, src) }); p && s.panicked == "" {
				s.panicked = msg
			}
			s.cv.S.Fill(src.Slice(0, src.Length()), in)
			atomic.AddInt64(&scanPreWritten, 1)
		} else {
			s.cv.S.Fill(src, in)
		}
	} else {
		s.cv.S.Fill(src, in)
	}
	srcLen, dstLen := src.Len(), dst.Len()
	if fr := dst.Length(); s.calls%8 == 3 && n%s.ch == 0 && fr >= 2 && s.panicked == "" {
		// first into a destination SHORTER than the source with spare capacity
		// behind it: neither operand changes its length (the full conversion
		// below then overwrites what this one wrote)
		short := dst.Slice(0, fr/2)
		sl := short.Len()
		if p, msg := core.Guard(func() { s.cv.Call(src, short) }); p {
			s.panicked = msg
		} else if short.Len() != sl || src.Len() != srcLen {
			s.panicked = fmt.Sprintf("(no panic, but) the conversion into a shorter destination with spare capacity changed the length of its operands: source %d -> %d samples, destination %d -> %d samples", srcLen, src.Len(), sl, short.Len())
		}
		atomic.AddInt64(&scanShortDst, 1)
	}
	if p, msg := core.Guard(func() { s.cv.Call(src, dst) }); p && s.panicked == "" {
		s.panicked = msg
	}
	if (src.Len() != srcLen || dst.Len() != dstLen) && s.panicked == "" {
		s.panicked = fmt.Sprintf("(no panic, but) the conversion changed the length of its operands: source %d -> %d samples, destination %d -> %d samples", srcLen, src.Len(), dstLen, dst.Len())
	}
	if s.panicked != "" {
		return s.out[:n] // the caller reports it; the operands may be in no state to be read
	}
	if s.calls%4 == 1 {
		// the source must hold what was put into it
		if s.chk == nil {
			s.chk = make([]uint64, chunkN)
		}
		back := s.chk[:n]
		s.cv.S.Drain(src, back)
		for i := range back {
			if back[i] != in[i] {
				s.panicked = fmt.Sprintf("(no panic, but) the conversion changed its source: position %d held carrier %#x before the call and %#x after it", i, in[i], back[i])
				return s.out[:n]
			}
		}
	}
	s.cv.D.Drain(dst, s.out[:n])
	return s.out[:n]
}

// longN is a sample count above 65536 that is not divisible by 2..16 (so that
// any split into equal parts leaves a remainder).
const longN = 70001

// longCheck converts longN samples (the given values repeated) in ONE call on
// buffers of that size and compares every result with the conversion of the
// same samples in ordinary chunks: a conversion must not depend on how many
// samples are converted at once. Returns the index of the first difference.
func (s *scanner) longCheck(values []uint64) (idx int, long, short uint64) {
	if len(values) == 0 {
		return -1, 0, 0
	}
	in := make([]uint64, longN)
	for i := range in {
		in[i] = values[(i*7)%len(values)]
	}
	frames := (longN + s.ch - 1) / s.ch
	src := operand(s.cv.S, s.ch, frames, 0)
	dst := operand(s.cv.D, s.ch, frames, 0)
	// dirty destination: an unconverted position must not look converted
	poison := make([]uint64, longN)
	for i := range poison {
		poison[i] = 1
	}
	s.cv.D.Fill(dst, poison)
	s.cv.S.Fill(src, in)
	if p, msg := core.Guard(func() { s.cv.Call(src, dst) }); p {
		if s.panicked == "" {
			s.panicked = msg
		}
		return -1, 0, 0
	}
	got := make([]uint64, longN)
	s.cv.D.Drain(dst, got)
	for off := 0; off < longN; off += chunkN {
		end := min(off+chunkN, longN)
		ref := s.conv(in[off:end])
		for i := range ref {
			if ref[i] != got[off+i] {
				return off + i, got[off+i], ref[i]
			}
		}
	}
	return -1, 0, 0
}

// orderCheck converts the same samples in reverse order and returns the index
// of the first sample whose result differs from `out` (-1: none): a
// conversion must not depend on the samples before it in the buffer.
func (s *scanner) orderCheck(in, out []uint64) (int, uint64) {
	n := len(in)
	keep := s.tmp[:n]
	copy(keep, out)
	r := s.rev[:n]
	for i, v := range in {
		r[n-1-i] = v
	}
	got := s.conv(r)
	for i := 0; i < n; i++ {
		if got[n-1-i] != keep[i] {
			return i, got[n-1-i]
		}
	}
	copy(out, keep) // s.out was overwritten by the reverse pass
	return -1, 0
}

// windowsCheck converts the same samples once more, this time in three
// pieces through pairs of windows (Slice views) of the two operands, the LAST
// piece first, and then reads the whole destination: a conversion writes the
// common prefix of its two windows and nothing behind it, so the pieces must
// add up to what the single call gave. Returns the first differing index.
func (s *scanner) windowsCheck(in, out []uint64) (int, uint64) {
	n := len(in)
	frames := n / s.ch // whole frames only
	if frames < 3 {
		return -1, 0
	}
	keep := s.tmp[:n]
	copy(keep, out)
	src, dst := s.src.Slice(0, frames), s.dst.Slice(0, frames)
	s.cv.S.Fill(src, in[:frames*s.ch])
	cuts := []int{0, frames / 3, frames/3 + (frames+1)/2, frames}
	if cuts[2] > frames {
		cuts[2] = frames
	}
	for k := 2; k >= 0; k-- {
		a, b := cuts[k], cuts[k+1]
		if p, msg := core.Guard(func() { s.cv.Call(s.src.Slice(a, b), s.dst.Slice(a, b)) }); p && s.panicked == "" {
			s.panicked = msg
		}
	}
	got := s.rev[:frames*s.ch]
	s.cv.D.Drain(dst, got)
	for i := range got {
		if got[i] != keep[i] {
			return i, got[i]
		}
	}
	copy(out, keep)
	return -1, 0
}

// prelude converts a short buffer that STARTS with the zero-amplitude sample
// (and repeats it between extreme values) and returns the results, so that
// state carried from sample to sample (a cache of the previous value, an
// initial value of an accumulator) becomes visible.
func (s *scanner) prelude(zero, lo, hi uint64) (in []uint64, out []uint64) {
	in = []uint64{zero, zero, hi, zero, lo, zero, hi, hi, lo, lo, zero}
	res := s.conv(in)
	return in, append([]uint64(nil), res...)
}

// preludeCheck runs the prelude and reports inconsistent results: the same
// sample must convert to the same result wherever it stands in the buffer,
// and the zero-amplitude sample must give zeroOK.
func preludeCheck(c *core.Ctx, sc *scanner, name, caseID string, zero, lo, hi uint64, zeroOK func(raw uint64) bool) {
	in, out := sc.prelude(zero, lo, hi)
	first := map[uint64]uint64{}
	for i, v := range in {
		if prev, ok := first[v]; ok && prev != out[i] {
			c.Violate(name+"|position-dependence", caseID, fmt.Sprintf("prelude %v: the sample at position %d converted to %#x, the same sample earlier in the buffer to %#x", in, i, out[i], prev),
				map[string]any{"fn": name, "input_carriers": in, "output_carriers": out})
			return
		} else if !ok {
			first[v] = out[i]
		}
	}
	// the special samples once more in tiny blocks - alone, and among nothing but
	// zero-amplitude samples: what a sample converts to must not depend on what
	// else is (or is not) in the block
	for _, sp := range []uint64{lo, hi, zero} {
		for bi, block := range [][]uint64{{sp}, {sp, zero, zero}, {zero, sp}, {zero, zero, sp, zero}} {
			pos := []int{0, 0, 1, 2}[bi]
			res := sc.conv(block)
			if want, ok := first[sp]; ok && res[pos] != want {
				c.Violate(name+"|block-dependence", caseID, fmt.Sprintf("the sample with carrier %#x converts to %#x in the block %v and to %#x in the mixed block %v", sp, res[pos], block, want, in),
					map[string]any{"fn": name, "block": block, "mixed_block": in})
				return
			}
			c.Obs("special_samples_converted_in_tiny_blocks", 1)
		}
	}
	if !zeroOK(out[0]) {
		c.Violate(name+"|leading-zero", caseID, fmt.Sprintf("a buffer starting with the zero-amplitude sample: position 0 converted to carrier %#x", out[0]),
			map[string]any{"fn": name, "input_carriers": in, "output_carriers": out})
	}
	c.Obs("preludes_starting_with_zero", 1)
}

// amp is the amplitude of a fixed-point code given as raw carrier.
func amp(t *dyn.TypeInfo, raw uint64) int64 {
	if t.Kind == dyn.KInt {
		return int64(raw)
	}
	return int64(raw - uint64(1)<<(t.Bits-1))
}

// rawOfAmp is the inverse of amp.
func rawOfAmp(t *dyn.TypeInfo, a int64) uint64 {
	if t.Kind == dyn.KInt {
		return uint64(a)
	}
	return uint64(a) + uint64(1)<<(t.Bits-1)
}

func minAmp(bits int) int64 { return -1 << (bits - 1) }
func maxAmp(bits int) int64 { return 1<<(bits-1) - 1 }

// codeAt returns the i-th code of a fixed-point type in ascending amplitude.
func codeAt(t *dyn.TypeInfo, i uint64) uint64 {
	return rawOfAmp(t, minAmp(t.Bits)+int64(i))
}

// ampList is the boundary-dense + seeded random amplitude list for a
// fixed-point type of the given depth, sorted ascending, de-duplicated.
func ampList(bits int, seed uint64, nRandom int) []int64 {
	set := map[int64]struct{}{}
	lo, hi := minAmp(bits), maxAmp(bits)
	add := func(v int64) {
		if v >= lo && v <= hi {
			set[v] = struct{}{}
		}
	}
	for d := int64(-3); d <= 3; d++ {
		add(d)
		add(lo + d)
		add(hi + d)
		for k := 0; k < bits; k++ {
			p := int64(1) << k
			add(p + d)
			add(-p + d)
			if k > 0 {
				q := int64(3) << (k - 1)
				add(q + d)
				add(-q + d)
			}
		}
	}
	for d := int64(0); d <= 300; d++ { // dense run at both ends and around zero
		add(lo + d)
		add(hi - d)
		add(d - 150)
	}
	r := core.NewRand(seed, uint64(bits), 0xabc)
	for i := 0; i < nRandom; i++ {
		v := int64(r.Uint64()) >> uint(64-bits)
		add(v >> uint(r.Intn(bits)))
		add(v)
	}
	out := make([]int64, 0, len(set))
	for v := range set {
		out = append(out, v)
	}
	sort.Slice(out, func(i, j int) bool { return out[i] < out[j] })
	return out
}

// breakpoints lists k*2^d + delta for every destination amplitude k and
// delta in -3..3, d = srcBits-dstBits, clipped to the source range, ascending.
func breakpoints(srcBits, dstBits int) []int64 {
	d := uint(srcBits - dstBits)
	lo, hi := minAmp(srcBits), maxAmp(srcBits)
	var out []int64
	for k := minAmp(dstBits); k <= maxAmp(dstBits)+1; k++ {
		base := k << d // k = 2^(dstBits-1) gives 2^(srcBits-1): overflows to lo for 64 bits; handled by the range test
		for delta := int64(-3); delta <= 3; delta++ {
			v := base + delta
			if k == maxAmp(dstBits)+1 && delta >= 0 {
				continue
			}
			if (delta < 0 && v > base) || (delta > 0 && v < base) { // wrapped
				continue
			}
			if k == maxAmp(dstBits)+1 && srcBits == 64 {
				v = hi + delta + 1 // 2^63 is not representable: count down from the top instead
			}
			if v >= lo && v <= hi {
				out = append(out, v)
			}
		}
	}
	sort.Slice(out, func(i, j int) bool { return out[i] < out[j] })
	return out
}

// mergeSorted merges two ascending lists and removes duplicates.
func mergeSorted(a, b []int64) []int64 {
	out := make([]int64, 0, len(a)+len(b))
	i, j := 0, 0
	for i < len(a) || j < len(b) {
		var v int64
		switch {
		case j >= len(b) || (i < len(a) && a[i] <= b[j]):
			v = a[i]
			i++
		default:
			v = b[j]
			j++
		}
		if len(out) == 0 || out[len(out)-1] != v {
			out = append(out, v)
		}
	}
	return out
}

// scanTask is one unit of enumeration work for one instantiation.
type scanTask struct {
	cv        *dyn.ConvOp
	full      bool   // enumerate codes [lo,hi) of the source type completely
	lo, hi    uint64 // index range in ascending-amplitude order
	list      bool   // use the boundary/random list instead
	whole     bool   // the task covers the whole source domain
	rep       int    // >1: every code is repeated rep times (long buffers of few distinct values)
	weightLog int
}

// fixedTasks builds the task list for the fixed->x conversions selected by
// keep; 32-bit sources are enumerated completely only when full32 is set.
func fixedTasks(keep func(*dyn.ConvOp) bool, full32 bool, segs32 int) []scanTask {
	var ts []scanTask
	for _, cv := range dyn.AllConvs() {
		if !keep(cv) {
			continue
		}
		b := cv.S.Bits
		switch {
		case b <= 16:
			ts = append(ts, scanTask{cv: cv, full: true, lo: 0, hi: uint64(1) << b, whole: true, weightLog: b})
			if b == 8 {
				// the same 256 codes again in buffers much longer than the
				// number of codes (paths that depend on the buffer length)
				ts = append(ts, scanTask{cv: cv, full: true, lo: 0, hi: 256, whole: true, rep: 100, weightLog: 15})
			}
		case b == 32 && full32:
			per := (uint64(1) << 32) / uint64(segs32)
			for s := 0; s < segs32; s++ {
				ts = append(ts, scanTask{cv: cv, full: true, lo: uint64(s) * per, hi: uint64(s+1) * per, weightLog: 28})
			}
		default:
			ts = append(ts, scanTask{cv: cv, list: true, weightLog: 17})
		}
	}
	// heavy tasks first so that round-robin distribution balances
	sort.SliceStable(ts, func(i, j int) bool { return ts[i].weightLog > ts[j].weightLog })
	return ts
}

// forEachChunk feeds the task's source codes (raw carriers, ascending
// amplitude) to f chunk by chunk. For range tasks the chunk before lo is not
// repeated; instead f receives `prevRaw`/`havePrev` of the code lo-1 so that
// order checks can be stitched across task boundaries.
func (t scanTask) forEachChunk(c *core.Ctx, f func(in []uint64)) {
	st := t.cv.S.TypeInfo
	buf := make([]uint64, 0, chunkN)
	if t.list {
		nr := c.Pick(20000, 400000)
		list := ampList(st.Bits, c.Seed, nr)
		if db := t.cv.D.Bits; t.cv.D.Kind != dyn.KFloat && db <= 16 && st.Bits > db {
			// narrowing into a small destination: every point where the result
			// must change (k*2^d) with its neighbours -- all preimage boundaries
			list = mergeSorted(list, breakpoints(st.Bits, db))
			c.Obs("breakpoint_lists_for_narrow_destinations", 1)
		}
		for _, a := range list {
			buf = append(buf, rawOfAmp(st, a))
			if len(buf) == chunkN {
				f(buf)
				buf = buf[:0]
			}
		}
		if len(buf) > 0 {
			f(buf)
		}
		return
	}
	i := t.lo
	if i > 0 {
		i-- // overlap by one code for order stitching
	}
	rep := max(t.rep, 1)
	k := 0
	for i < t.hi {
		buf = buf[:0]
		for len(buf) < chunkN && i < t.hi {
			buf = append(buf, codeAt(st, i))
			if k++; k == rep {
				k = 0
				i++
			}
		}
		f(buf)
	}
}

// ---- floats

// f32At returns the i-th non-NaN float32 in ascending numeric order
// (-Inf ... -0, +0 ... +Inf) as a float64 carrier.
const f32Half = 0x7F800001 // number of non-NaN patterns per sign
func f32At(i uint64) float64 {
	var pat uint32
	if i < f32Half {
		pat = 0x80000000 + uint32(0x7F800000-i)
	} else {
		pat = uint32(i - f32Half)
	}
	return float64(math.Float32frombits(pat))
}

// floatList is the boundary-dense + seeded random list of float64 inputs for
// float->fixed conversions, sorted ascending, without NaN. For float32 sources
// every value is rounded to float32 first.
func floatList(seed uint64, nRandom int, f32 bool) []float64 {
	set := map[uint64]struct{}{}
	add := func(f float64) {
		if f32 {
			f = float64(float32(f))
		}
		if !math.IsNaN(f) {
			set[math.Float64bits(f)] = struct{}{}
		}
	}
	around := func(f float64) {
		add(f)
		u, d := f, f
		for i := 0; i < 3; i++ {
			if f32 {
				u = float64(math.Nextafter32(float32(u), float32(math.Inf(1))))
				d = float64(math.Nextafter32(float32(d), float32(math.Inf(-1))))
			} else {
				u = math.Nextafter(u, math.Inf(1))
				d = math.Nextafter(d, math.Inf(-1))
			}
			add(u)
			add(d)
		}
	}
	for k := -70; k <= 70; k++ {
		p := math.Ldexp(1, k)
		around(p)
		around(-p)
		around(1.5 * p)
		around(-1.5 * p)
	}
	for _, b := range []float64{0, 1, 0.5, 127, 128, 255, 256, 32767, 32768, 65535, 65536, 1 << 31, 1<<31 - 1, 1 << 32, 1<<32 - 1, 1 << 63, 1 << 64, 1e30, 1e300, math.MaxFloat32, math.MaxFloat64} {
		for m := 1.0; m <= 3; m++ {
			around(b * m)
			around(-b * m)
		}
	}
	add(math.Inf(1))
	add(math.Inf(-1))
	add(math.Copysign(0, -1))
	add(math.SmallestNonzeroFloat64)
	add(-math.SmallestNonzeroFloat64)
	add(math.SmallestNonzeroFloat32)
	add(-math.SmallestNonzeroFloat32)
	// values whose product with the full scales is next to an integer or a half
	for _, fs := range []float64{127, 128, 32767, 32768, 1<<31 - 1, 1 << 31} {
		for _, n := range []float64{1, 2, 3, 63, 64, 100, fs - 1, fs - 2, fs / 2} {
			around(n / fs)
			around(-n / fs)
			around((n + 0.5) / fs)
			around(-(n + 0.5) / fs)
		}
	}
	r := core.NewRand(seed, 0xf10a7, func() uint64 {
		if f32 {
			return 32
		}
		return 64
	}())
	for i := 0; i < nRandom; i++ {
		switch i % 4 {
		case 0, 1:
			add(r.Float64()*2 - 1)
		case 2:
			add(math.Ldexp(r.Float64()*2-1, r.Range(-60, 0)))
		default:
			add(math.Ldexp(r.Float64()*2-1, r.Range(1, 120)))
		}
	}
	out := make([]float64, 0, len(set))
	for b := range set {
		out = append(out, math.Float64frombits(b))
	}
	sort.Float64s(out)
	return out
}

// ---- exact arithmetic helpers

func ratOfFloat(f float64) *big.Rat {
	r := new(big.Rat)
	r.SetFloat64(f)
	return r
}

func pow2Rat(k int) *big.Rat {
	if k >= 0 {
		return new(big.Rat).SetInt(new(big.Int).Lsh(big.NewInt(1), uint(k)))
	}
	return new(big.Rat).SetFrac(big.NewInt(1), new(big.Int).Lsh(big.NewInt(1), uint(-k)))
}

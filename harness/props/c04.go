package props

import (
	"fmt"
	"runtime"
	"time"

	"pipelined.dev/signal"
	"verifharness/core"
	"verifharness/dyn"
	"verifharness/mon"
)

func init() {
	register(&Def{
		ID:    "C04",
		Level: "exploration",
		Rule: "every element type x channel counts 1..8 x parent capacities 0..33 frames x windows starting at frame 0 and at later frames (with and without spare capacity) x call counts {0,1,cap-1,cap,cap+1,3*cap+7, 10^4}; after every AppendSample the window, a full-capacity alias taken beforehand, the parent and the whole storage are compared with the reference model " +
			"(value at position Len, Len+1, Length=ceil(Len/C), capacity and base address unchanged, no other cell changed); distinct = distinct (type,C,K,window,call index) tuples; non-trivial = the buffer has capacity > 0; " +
			"also: a sample refused before the buffer grew, windows cut after the parent was appended to, every window also cut from a partly filled parent that received 1..3 single samples first (the window may reach beyond the parent's length), a window over nothing but the unwritten tail, the full buffer read out before the next append, one whole frame appended in bulk between two sample appends",
		Assume: []string{"storage contents are re-read through the verif hook over the whole parent capacity"},
		Plan:   func(tier string) []Batch { return split("appendsample", 8, 900) },
		Run:    runC04,
	})
}

func runC04(c *core.Ctx) {
	ks := []int{0, 1, 2, 3, 5, 9}
	if !c.Quick() {
		ks = []int{0, 1, 2, 3, 4, 5, 6, 7, 8, 9, 10, 12, 15, 16, 17, 24, 31, 32, 33, 64, 100}
	}
	n := 0
	for _, t := range dyn.ElemTypes() {
		for ch := 1; ch <= 8; ch++ {
			for _, k := range ks {
				wins := [][2]int{{0, 0}, {0, k / 2}, {0, k}, {1, 1}, {1, k}, {k / 2, k / 2}, {k / 2, (k + k/2) / 2}, {k, k}}
				seen := map[[2]int]bool{}
				for _, wn := range wins {
					s, e := wn[0], wn[1]
					if s > k || e > k || s > e || seen[wn] {
						continue
					}
					seen[wn] = true
					n++
					if !c.Mine(n) {
						continue
					}
					caseID := fmt.Sprintf("%s/C%d/K%d/w%d-%d", t.Name, ch, k, s, e)
					if !c.Want(caseID) {
						continue
					}
					c04Case(c, t, ch, k, s, e, caseID, 0)
					if k >= 2 {
						// the same window cut from a parent that has spare capacity and
						// was appended to sample by sample BEFORE the window was taken
						c04Case(c, t, ch, k, s, e, caseID+"/parent-sample-appended-first", -5)
					}
				}
			}
		}
	}
	// far beyond capacity: 10^4 calls on a few shapes
	for i, t := range dyn.ElemTypes() {
		if c.Mine(i) && c.Want("long/"+t.Name) {
			c04Case(c, t, 1+i%8, 6, 1, 3, "long/"+t.Name, 10000)
		}
		if c.Mine(i+9) && c.Want("wide/"+t.Name) {
			// several hundred channels: the channel count must not be squeezed
			// into a narrow integer anywhere
			c04Case(c, t, []int{255, 256, 257, 300, 1000}[i%5], 3, 1, 2, "wide/"+t.Name, 0)
		}
		if c.Mine(i+3) && c.Want("recycled/"+t.Name) {
			c04Recycled(c, t, 1+i%4, "recycled/"+t.Name)
		}
		if c.Mine(i+5) && c.Want("large/"+t.Name) {
			c04Case(c, t, 1+(i+3)%8, 700, 2, 5, "large/"+t.Name, 0)
		}
	}
	// the zero value of the Buffer type (no allocator made it): every call is a
	// no-op that changes nothing, the reported bit depth included
	for i, t := range dyn.ElemTypes() {
		caseID := "zero-value/" + t.Name
		if !c.Mine(i+2) || !c.Want(caseID) {
			continue
		}
		inst := "AppendSample[" + t.Name + "]"
		zb := t.ZeroValue()
		before := mon.ShapeOf(zb)
		views := []dyn.Buf{zb}
		if p, _ := core.Guard(func() { views = append(views, zb.Slice(0, 0)) }); p {
			views = views[:1]
		}
		for n := 0; n < 3; n++ {
			for vi, vb := range views {
				c.Eval(1)
				vbefore := mon.ShapeOf(vb)
				if p, msg := core.Guard(func() { vb.AppendSample(t.FromInt(int64(1 + n))) }); p {
					c.Violate(inst+"|panic", caseID, "AppendSample on the zero value of the Buffer type panicked: "+msg, map[string]any{"type": t.Name})
					break
				}
				if after := mon.ShapeOf(vb); after != vbefore {
					c.Violate(inst+"|full-not-noop", caseID, fmt.Sprintf("call %d on the zero value of the Buffer type (view %d) changed it from %v to %v", n+1, vi, vbefore, after), map[string]any{"type": t.Name})
					break
				}
			}
		}
		if after := mon.ShapeOf(zb); after != before {
			c.Violate(inst+"|full-not-noop", caseID, fmt.Sprintf("appends changed the zero value of the Buffer type from %v to %v", before, after), map[string]any{"type": t.Name})
		}
		c.Obs("zero_value_buffers_appended_to", 1)
	}
	// single-sample appends across 2^24 samples (arithmetic on the length that
	// is exact only for small numbers): shape and value checks, no world model
	for i, ch := range []int{1, 3} {
		t := dyn.Types[0] // int8: 16 MiB
		caseID := fmt.Sprintf("beyond-2^24-samples/%s/C%d", t.Name, ch)
		if !c.Mine(i+11) || !c.Want(caseID) {
			continue
		}
		inst := "AppendSample[" + t.Name + "]"
		frames := (1<<24+40)/ch + 1
		startFrames := (1<<24 - 9) / ch
		b := t.Alloc(signal.Allocator{Channels: ch, Length: startFrames, Capacity: frames})
		d := map[string]any{"type": t.Name, "channels": ch, "length": startFrames, "capacity": frames}
		base, capBefore := b.RawBase(), b.Cap()
		for n := 0; n < 40; n++ {
			lenBefore := b.Len()
			v := t.FromInt(int64(1 + n%100))
			c.Eval(1)
			if p, msg := core.Guard(func() { b.AppendSample(v) }); p {
				c.Violate(inst+"|panic", caseID, "AppendSample panicked: "+msg, d)
				break
			}
			wantLength := (lenBefore + 1 + ch - 1) / ch
			if b.Len() != lenBefore+1 || b.Length() != wantLength || b.Cap() != capBefore || b.Capacity() != frames || b.RawBase() != base || b.RawLen() != lenBefore+1 {
				c.Violate(inst+"|length", caseID, fmt.Sprintf("after appending to a buffer of %d samples: Len=%d Length=%d Cap=%d Capacity=%d, expected Len=%d Length=%d Cap=%d Capacity=%d", lenBefore, b.Len(), b.Length(), b.Cap(), b.Capacity(), lenBefore+1, wantLength, capBefore, frames), d)
				break
			}
			if got := b.Sample(lenBefore); !got.Same(v) {
				c.Violate(inst+"|value", caseID, fmt.Sprintf("position %d holds %v, appended %v", lenBefore, got, v), d)
				break
			}
			c.Obs("appends_across_2^24_samples", 1)
		}
	}
	// parents whose storage comes from a growing Append: the buffer itself
	// (window from frame 0 to its length) and a later window
	for i, t := range dyn.ElemTypes() {
		for ch := 1; ch <= 7; ch++ {
			for _, k := range []int{2, 3, 5} {
				if !c.Mine(i + ch + k) {
					continue
				}
				caseID := fmt.Sprintf("grown/%s/C%d/K%d", t.Name, ch, k)
				if c.Want(caseID) {
					c04Case(c, t, ch, k, 0, k, caseID, -1)
					c04Case(c, t, ch, k, 1, k-1, caseID+"/w", -1)
					c04Case(c, t, ch, k, 0, k, caseID+"/from-zero-capacity", -2)
					c04Case(c, t, ch, k, 0, k, caseID+"/itself", -3)
					if ch >= 2 {
						c04Case(c, t, ch, k, max(k-2, 0), k, caseID+"/window-over-partial-frame", -4)
						if k >= 2 {
							// a window over nothing but the unwritten tail, up to the capacity
							c04Case(c, t, ch, k, -1, -1, caseID+"/window-over-unwritten-tail", -4)
						}
					}
				}
			}
		}
	}
	c.Floor("parents_grown_by_append", 50)
	// a write cursor near the end of a very large buffer (several hundred
	// thousand samples): a tiny window of a huge parent is still a window
	for i, t := range dyn.ElemTypes() {
		if i%4 != 1 && t.Name != "float32" {
			continue
		}
		ch := 1 + i%3
		k := 300007 / ch
		if c.Mine(i+7) && c.Want("huge/"+t.Name) {
			c04Case(c, t, ch, k, k-8, k-6, "huge/"+t.Name, 5*ch+3)
			c.Obs("tiny_tail_windows_of_parents_with_300000_samples", 1)
		}
	}
	c.Floor("tiny_tail_windows_of_parents_with_300000_samples", 1)
	c.Floor("noop_calls_on_full", 100)
	c.Floor("appending_calls", 1000)
}

// c04Recycled appends sample by sample to a buffer that an earlier holder
// obtained from the same pool, appended to and put back.
func c04Recycled(c *core.Ctx, t *dyn.TypeOps, ch int, caseID string) {
	inst := "AppendSample[" + t.Name + "]"
	d := map[string]any{"type": t.Name, "channels": ch, "buffer": "recycled through a pool (Get, 5 sample appends, Put, Get)"}
	p, msg := core.Guard(func() {
		pool := t.PoolAlloc(signal.Allocator{Channels: ch, Length: 0, Capacity: 4})
		for round := 0; round < 3; round++ {
			g := pool.Get()
			for i := 0; i < 5; i++ {
				g.AppendSample(t.FromInt(int64(1 + i)))
			}
			pool.Put(g)
		}
		b := pool.Get()
		for call := 1; call <= ch*4+3; call++ {
			c.Eval(1)
			c.Distinct(core.NewHash().Str(caseID).Int(call).Sum())
			wantLen := min(call, ch*4)
			v := t.FromInt(int64(10 + call))
			b.AppendSample(v)
			if b.Len() != wantLen || b.Length() != mon.CeilDiv(wantLen, ch) || b.Cap() != ch*4 || b.Capacity() != 4 {
				c.Violate(inst+"|shape|recycled", caseID, fmt.Sprintf("after %d sample appends on a recycled pool buffer: %v, expected Len %d Length %d", call, mon.ShapeOf(b), wantLen, mon.CeilDiv(wantLen, ch)), d)
				return
			}
			if call <= ch*4 && !b.Sample(call-1).Same(v) {
				c.Violate(inst+"|value|recycled", caseID, fmt.Sprintf("position %d holds %v, appended %v", call-1, b.Sample(call-1), v), d)
				return
			}
		}
		c.Obs("recycled_pool_buffers_appended_to", 1)
		// a window of a pooled buffer whose own header is dropped: the samples
		// appended through the window must survive garbage collections and
		// later use of the pool
		win := pool.Get().Slice(1, 1)
		var want []dyn.Val
		for i := 0; i < ch*2; i++ {
			v := t.FromInt(int64(40 + i))
			win.AppendSample(v)
			want = append(want, v)
		}
		for round := 0; round < 3; round++ {
			runtime.GC()
			runtime.Gosched()
			time.Sleep(300 * time.Microsecond)
			other := pool.Get()
			for i := 0; i < ch*4; i++ {
				other.AppendSample(t.FromInt(int64(90 + i)))
			}
			for i, w := range want {
				if win.Len() != len(want) || !win.Sample(i).Same(w) {
					c.Violate(inst+"|window-of-pooled-buffer-after-gc", caseID, fmt.Sprintf("a window Slice(1,1) of a pooled buffer (root header dropped): after a garbage collection and another Get, appended sample %d reads %v instead of %v (Len %d)", i, win.Sample(i), w, win.Len()), d)
					return
				}
			}
			runtime.KeepAlive(other)
		}
		c.Obs("windows_of_dropped_pool_buffers_rechecked_after_gc", 1)
	})
	if p {
		c.Violate(inst+"|panic|recycled", caseID, "appending to a recycled pool buffer panicked: "+msg, d)
	}
}

func c04Case(c *core.Ctx, t *dyn.TypeOps, ch, k, s, e int, caseID string, forceCalls int) {
	if p, msg := core.Guard(func() { c04CaseBody(c, t, ch, k, s, e, caseID, forceCalls) }); p {
		c.Violate("AppendSample["+t.Name+"]|panic", caseID, fmt.Sprintf("the scenario (window Slice(%d,%d) of a %d-channel, %d-frame buffer, full-capacity alias, sample appends) panicked: %s", s, e, ch, k, msg),
			map[string]any{"type": t.Name, "channels": ch, "parent_frames": k, "window": []int{s, e}})
	}
}

func c04CaseBody(c *core.Ctx, t *dyn.TypeOps, ch, k, s, e int, caseID string, forceCalls int) {
	inst := "AppendSample[" + t.Name + "]"
	w := mon.NewWorld(t)
	b := t.Alloc(signal.Allocator{Channels: ch, Length: k, Capacity: k})
	ragged := false
	if forceCalls == -4 {
		ragged = true
		// the parent ends in a partly filled frame when the window (which covers
		// that frame and the spare capacity) is taken; the appends go to the parent
		forceCalls = 0
		b = t.Alloc(signal.Allocator{Channels: ch, Length: max(k-2, 0), Capacity: k})
		c.Obs("windows_taken_over_a_partial_last_frame_of_the_parent", 1)
	}
	pre := 0
	if forceCalls == -5 {
		// the parent is only partly filled and receives a few single samples
		// before the window is cut (the window may reach beyond the parent's
		// length, up to its capacity); the appends then go to the window
		forceCalls = 0
		pre = 1 + (ch+k+s)%3
		b = t.Alloc(signal.Allocator{Channels: ch, Length: k / 3, Capacity: k})
		c.Obs("windows_cut_from_a_partly_filled_parent_after_it_was_sample_appended", 1)
	}
	onRoot := forceCalls == -3 || ragged
	if onRoot {
		forceCalls = -1
		c.Obs("appends_to_a_grown_buffer_itself", 1)
	}
	if forceCalls == -1 {
		// the parent reached its k frames through a growing Append (whatever
		// capacity that growth produced)
		forceCalls = 0
		b = t.Alloc(signal.Allocator{Channels: ch, Length: 1, Capacity: 1})
		if (ch+k)%2 == 0 {
			// a sample offered while the buffer was still full (and refused) must
			// not matter once the buffer has grown
			b.AppendSample(t.FromInt(77))
			c.Obs("sample_appends_refused_before_the_buffer_grew", 1)
		}
		b.Append(t.Alloc(signal.Allocator{Channels: ch, Length: k - 1, Capacity: k - 1}))
		c.Obs("parents_grown_by_append", 1)
	} else if forceCalls == -2 {
		// the parent had no storage at all and got its k frames from one Append
		// of a source that has spare capacity and stays alive in the world
		forceCalls = 0
		b = t.Alloc(signal.Allocator{Channels: ch})
		src := t.Alloc(signal.Allocator{Channels: ch, Length: k, Capacity: k + 2})
		sall := src.RawAll()
		for i := 0; i < sall.Len(); i++ {
			sall.Set(i, w.NextStamp())
		}
		w.Adopt(src, "source-of-the-first-append")
		b.Append(src)
		c.Obs("parents_that_got_their_storage_from_an_append_to_a_zero_capacity_buffer", 1)
	}
	all := b.RawAll()
	for i := 0; i < all.Len(); i++ {
		all.Set(i, w.NextStamp())
	}
	if ragged {
		b.AppendSample(w.NextStamp())
	}
	root := w.Adopt(b, "parent")
	for j := 0; j < pre; j++ {
		w.AppendSample(root, w.NextStamp())
	}
	if s < 0 {
		// the window over nothing but the unwritten tail of the parent as it
		// is now, up to its capacity
		s, e = b.Length(), b.Capacity()
		if s >= e {
			return
		}
		c.Obs("windows_over_nothing_but_the_unwritten_tail_up_to_the_capacity", 1)
	}
	win := w.Slice(root, s, e, "window")
	if ragged && (ch+k+s+e)%2 == 0 {
		// the parent was appended to BEFORE the window was cut; the appends now
		// go to the window
		onRoot = false
		c.Obs("windows_appended_to_after_the_parent_was_appended_to", 1)
	}
	if onRoot {
		// the appends go to the buffer itself, not to a Slice view of it
		win = root
	}
	alias := w.Slice(win, 0, win.M.Cap/ch, "alias")
	if win.M.Len%ch == 0 {
		// a second view of exactly the window's current length: it must keep
		// its own length when the window is appended to
		w.Slice(win, 0, win.M.Len/ch, "same-length-twin")
	}
	// channel views of the window, taken before anything is appended: they
	// share the storage too and must see every appended value
	var cvs []dyn.Chan
	for ci := 0; ci < ch; ci++ {
		cvs = append(cvs, win.B.Channel(ci))
	}
	capv := win.M.Cap - win.M.Len
	d := map[string]any{"type": t.Name, "channels": ch, "parent_frames": k, "window": []int{s, e}, "spare_samples": capv}
	if (s+e+ch)%3 == 0 {
		// the window is first offered to a pool of another total capacity, which
		// has to refuse it (C15 decides whether it panics); the window is then
		// appended to as if nothing had happened
		fp := t.PoolAlloc(signal.Allocator{Channels: ch, Length: 0, Capacity: win.M.Cap/ch + 1})
		core.Guard(func() { fp.Put(win.B) })
		c.Obs("windows_offered_to_a_foreign_pool_before_the_appends", 1)
		if ps := w.CheckAll(); len(ps) > 0 {
			report(c, inst+"|after-a-refused-put", caseID, ps, d)
			return
		}
	}
	counts := []int{0, 1, capv - 1, capv, capv + 1, 3*capv + 7}
	if forceCalls > 0 {
		counts = []int{forceCalls}
	}
	c.Sample("appendsample", d)
	calls := 0
	readWhole := false
	bulkDone := false
	for _, target := range counts {
		for calls < target {
			calls++
			c.Eval(1)
			wasFull := win.M.Len == win.M.Cap
			if win.M.Cap > 0 {
				c.Distinct(core.NewHash().Str(caseID).Int(calls).Sum())
			}
			if !bulkDone && calls > 1 && win.M.Len%ch == 0 && win.M.Cap-win.M.Len >= 2*ch {
				// between two sample appends one whole frame is appended in bulk
				// (it fits in place): the next sample goes behind it
				bulkDone = true
				sb := t.Alloc(signal.Allocator{Channels: ch, Length: 1, Capacity: 1})
				for i := 0; i < sb.Len(); i++ {
					sb.SetSample(i, w.NextStamp())
				}
				sv := w.Adopt(sb, "bulk-source")
				var aps []mon.Problem
				if p, msg := core.Guard(func() { aps = w.Append(win, sv) }); p {
					c.Violate(inst+"|panic", caseID, "a bulk Append of one frame between sample appends panicked: "+msg, d)
					return
				}
				if len(aps) > 0 {
					report(c, inst+"|bulk-append-between-samples", caseID, aps, d)
					return
				}
				c.Obs("bulk_appends_between_two_sample_appends", 1)
			}
			if wasFull && !readWhole {
				// the full buffer is read out completely (a consumer drains it)
				// before the next sample is offered: reading changes nothing
				readWhole = true
				sl := t.MakeSl(win.B.Len() + ch)
				core.Guard(func() { t.SelfPair.Read(win.B, sl) })
				c.Obs("full_buffers_read_out_completely_before_the_next_append", 1)
			}
			v := w.NextStamp()
			before := mon.ShapeOf(win.B)
			if p, msg := core.Guard(func() { w.AppendSample(win, v) }); p {
				c.Violate(inst+"|panic", caseID, fmt.Sprintf("call %d panicked: %s", calls, msg), d)
				return
			}
			if wasFull {
				c.Obs("noop_calls_on_full", 1)
				if after := mon.ShapeOf(win.B); after != before {
					c.Violate(inst+"|full-not-noop", caseID, fmt.Sprintf("call %d on a full buffer changed it from %v to %v", calls, before, after), d)
					return
				}
			} else {
				c.Obs("appending_calls", 1)
				if win.B.Len() != win.M.Len {
					c.Violate(inst+"|length", caseID, fmt.Sprintf("call %d on a buffer that was not full (Len %d of Cap %d): Len is now %d, expected %d", calls, win.M.Len-1, win.M.Cap, win.B.Len(), win.M.Len), d)
					return
				}
				if got := win.B.Sample(win.M.Len - 1); !got.Same(v) {
					c.Violate(inst+"|value", caseID, fmt.Sprintf("call %d: position %d holds %v, appended %v", calls, win.M.Len-1, got, v), d)
				}
			}
			full := calls < 64 || calls%37 == 0 || calls == target
			var ps []mon.Problem
			if full {
				ps = w.CheckAll()
				c.Obs("full_world_checks", 1)
				for ci, cv := range cvs {
					if cv.Length() != win.B.Length() {
						c.Violate(inst+"|channel-view", caseID, fmt.Sprintf("after call %d the channel view taken before the appends reports length %d, the buffer %d", calls, cv.Length(), win.B.Length()), d)
						return
					}
					for i := 0; ch*i+ci < win.M.Len; i++ {
						if got, want := cv.Sample(i), win.M.St.Cells[win.M.Off+ch*i+ci]; !got.Same(want) {
							c.Violate(inst+"|channel-view", caseID, fmt.Sprintf("after call %d the channel view taken before the appends reads %v for channel %d sample %d, the storage holds %v", calls, got, ci, i, want), d)
							return
						}
						c.Obs("samples_read_through_earlier_channel_views", 1)
					}
				}
			} else {
				ps = w.CheckView(win)
			}
			if len(ps) > 0 {
				d2 := map[string]any{"case": d, "call": calls, "was_full": wasFull}
				report(c, inst, caseID, ps, d2)
				return
			}
		}
	}
	_ = alias
}

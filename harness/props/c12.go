package props

import (
	"fmt"
	"strings"

	"pipelined.dev/signal"
	"verifharness/core"
	"verifharness/dyn"
	"verifharness/mon"
)

func init() {
	register(&Def{
		ID:    "C12",
		Level: "exploration",
		Rule: "bounded-exhaustive: from every root shape in {1,2,3 channels} x {(L,K): K<=bound} every operation sequence up to depth d over the alphabet {Alloc, Slice (all valid ranges), Append (every ordered pair of live views inside C03's domain, incl. self, plus operands with a partly filled last frame when the append fits the capacity), AppendSample, SetSample (first/last position), Write, WriteStriped, channel-view SetSample, an Append of a fresh buffer with another channel count (has to be refused and to change nothing)}, at most 6 live views, each sequence re-executed from the root on the real code and compared with the Go-slice reference model after its last step (all views over length and capacity, all storages through the hook, address identity); " +
			"plus seeded random histories of 50..200 steps over larger shapes (<=8 channels, <=64 frames, <=12 live views with retirement) and six element types, checked after every step; " +
			"distinct = distinct operation sequences (hash of the operation list incl. root shape) ; non-trivial = the sequence contains at least one mutating operation",
		Assume: []string{"Append only inside the domain of C03 (aligned operands, no source overlapping the destination's spare capacity)", "Slice only with valid ranges (invalid ones are C02's subject)",
			"the capacity chosen by a growing append is adopted after checking alignment and size"},
		Exhaustiv: "operation sequences up to the stated depth over the small-shape alphabet (depth 3 quick, depth 4 thorough; depth 5 over the reduced alphabet without Write/WriteStriped/channel writes in the thorough tier)",
		Plan: func(tier string) []Batch {
			bs := split("exhaustive", 12, 1800)
			for _, b := range split("random", 4, 1800) {
				bs = append(bs, b)
			}
			return bs
		},
		Run: runC12,
	})
}

type c12op struct {
	Kind    string // alloc slice append appendsample set write wstriped chanset drop
	V, U    int    // view indexes
	S, E, I int
}

func (o c12op) String() string {
	switch o.Kind {
	case "alloc":
		return fmt.Sprintf("alloc(L%d,K%d)", o.S, o.E)
	case "slice":
		return fmt.Sprintf("v%d.slice(%d,%d)", o.V, o.S, o.E)
	case "append":
		return fmt.Sprintf("v%d.append(v%d)", o.V, o.U)
	case "appendsample":
		return fmt.Sprintf("v%d.appendsample", o.V)
	case "set":
		return fmt.Sprintf("v%d.set(%d)", o.V, o.I)
	case "write":
		return fmt.Sprintf("v%d.write(n%d)", o.V, o.I)
	case "wstriped":
		return fmt.Sprintf("v%d.wstriped(%d)", o.V, o.I)
	case "chanset":
		return fmt.Sprintf("v%d.chan(%d).set(%d)", o.V, o.S, o.I)
	case "appendforeign":
		return fmt.Sprintf("v%d.append(fresh buffer with another channel count, %d frames: must be refused)", o.V, o.I)
	case "wstripedforeign":
		return fmt.Sprintf("v%d.wstriped(one row too many, %d samples each: must be refused)", o.V, o.I)
	case "drop":
		return fmt.Sprintf("drop(v%d)", o.V)
	}
	return o.Kind
}

type c12world struct {
	w    *mon.World
	t    *dyn.TypeOps
	ch   int
	pair *dyn.PairOps
}

func newC12World(t *dyn.TypeOps, ch, l, k int) *c12world {
	cw := &c12world{w: mon.NewWorld(t), t: t, ch: ch, pair: t.SelfPair}
	cw.alloc(l, k)
	return cw
}

func (cw *c12world) alloc(l, k int) {
	b := cw.t.Alloc(signal.Allocator{Channels: cw.ch, Length: l, Capacity: k})
	stampAll(cw.w, b)
	cw.w.Adopt(b, fmt.Sprintf("v%d", len(cw.w.Views)))
}

// enumerate lists the operations of the small alphabet applicable in the
// current model state.
func (cw *c12world) enumerate(maxViews int, reduced bool, allocShape [2]int) []c12op {
	var ops []c12op
	w := cw.w
	room := len(w.Views) < maxViews
	if room && len(w.Storages) < 3 {
		ops = append(ops, c12op{Kind: "alloc", S: allocShape[0], E: allocShape[1]})
	}
	for vi, v := range w.Views {
		m := v.M
		frames := m.Cap / m.C
		if room {
			for s := 0; s <= frames; s++ {
				for e := s; e <= frames; e++ {
					ops = append(ops, c12op{Kind: "slice", V: vi, S: s, E: e})
				}
			}
		}
		ops = append(ops, c12op{Kind: "appendsample", V: vi})
		if m.Len > 0 {
			ops = append(ops, c12op{Kind: "set", V: vi, I: 0})
			if m.Len > 1 {
				ops = append(ops, c12op{Kind: "set", V: vi, I: m.Len - 1})
			}
		}
		for ui, u := range w.Views {
			if mon.AppendPreHistories(v, u) {
				ops = append(ops, c12op{Kind: "append", V: vi, U: ui})
			}
		}
		if !reduced {
			ops = append(ops, c12op{Kind: "appendforeign", V: vi, I: 1 + vi%2})
			if vi%2 == 0 {
				ops = append(ops, c12op{Kind: "wstripedforeign", V: vi, I: 1 + vi%3})
			}
			ops = append(ops, c12op{Kind: "write", V: vi, I: m.Len + 1})
			if m.Len%m.C == 0 {
				ops = append(ops, c12op{Kind: "wstriped", V: vi, I: m.Len / m.C})
				if m.Len > 0 {
					ops = append(ops, c12op{Kind: "chanset", V: vi, S: m.C - 1, I: m.Len/m.C - 1})
				}
			}
		}
	}
	return ops
}

// apply executes one operation on the real code and on the model.
func (cw *c12world) apply(o c12op, c *core.Ctx) (ps []mon.Problem) {
	w := cw.w
	t := cw.t
	core.Enter()
	defer core.Leave()
	defer func() {
		if r := recover(); r != nil {
			ps = append(ps, mon.Problem{Kind: "panic", Msg: fmt.Sprintf("%v panicked: %v", o, r)})
		}
	}()
	switch o.Kind {
	case "alloc":
		cw.alloc(o.S, o.E)
	case "drop":
		w.Drop(o.V)
	case "slice":
		w.Slice(w.Views[o.V], o.S, o.E, fmt.Sprintf("v%d", len(w.Views)))
	case "appendsample":
		v := w.Views[o.V]
		if v.M.Len < v.M.Cap && w.Covering(v.M.St, v.M.Off+v.M.Len) > 0 {
			c.Obs("writes_visible_through_other_views", 1)
		}
		w.AppendSample(v, w.NextStamp())
	case "set":
		v := w.Views[o.V]
		if w.Covering(v.M.St, v.M.Off+o.I) >= 2 {
			c.Obs("writes_visible_through_other_views", 1)
		}
		w.SetSample(v, o.I, w.NextStamp())
	case "wstripedforeign":
		// a striped write with one row more than the view has channels: refused,
		// the model does not change
		dst := w.Views[o.V]
		lens := make([]int, dst.M.C+1)
		for i := range lens {
			lens[i] = o.I
		}
		ss := w.T.MakeSS(lens)
		for ci := range lens {
			for i := 0; i < o.I; i++ {
				ss.At(ci).Set(i, w.NextStamp())
			}
		}
		core.Guard(func() { w.T.SelfPair.WriteStriped(ss, dst.B) })
		c.Obs("striped_writes_with_one_row_too_many_attempted", 1)
	case "appendforeign":
		// an Append the library has to refuse (C15 decides whether it panics):
		// the model does not change
		dst := w.Views[o.V]
		f := w.T.Alloc(signal.Allocator{Channels: dst.M.C%3 + 1, Length: o.I, Capacity: o.I})
		for i := 0; i < f.Len(); i++ {
			f.SetSample(i, w.NextStamp())
		}
		core.Guard(func() { dst.B.Append(f) })
		c.Obs("appends_of_a_buffer_with_another_channel_count_attempted", 1)
	case "append":
		dst, src := w.Views[o.V], w.Views[o.U]
		grow := dst.M.Cap < dst.M.Len+src.M.Len
		oldSt := dst.M.St
		if !grow && src.M.Len > 0 && w.Covering(dst.M.St, dst.M.Off+dst.M.Len) > 0 {
			c.Obs("writes_visible_through_other_views", 1)
		}
		ps = append(ps, w.Append(dst, src)...)
		if grow {
			c.Obs("growth_moves", 1)
			for _, other := range w.Views {
				if other.M.St == oldSt {
					c.Obs("growth_moves_leaving_views_behind", 1)
					break
				}
			}
		}
	case "write":
		v := w.Views[o.V]
		src := t.MakeSl(o.I)
		for i := 0; i < o.I; i++ {
			src.Set(i, w.NextStamp())
		}
		n := min(v.M.Len, o.I)
		got := cw.pair.Write(src, v.B)
		for i := 0; i < n; i++ {
			v.M.St.Cells[v.M.Off+i] = src.Get(i)
		}
		if got != mon.CeilDiv(n, v.M.C) {
			ps = append(ps, mon.Problem{Kind: "count", Msg: fmt.Sprintf("%v returned %d want %d", o, got, mon.CeilDiv(n, v.M.C))})
		}
	case "wstriped":
		v := w.Views[o.V]
		lens := make([]int, v.M.C)
		for ci := range lens {
			lens[ci] = o.I - ci%2 // uneven channels
			if lens[ci] < 0 {
				lens[ci] = 0
			}
			if ci > 0 && (o.I+ci+o.V)%3 == 2 {
				lens[ci] = -1 // a nil row: that channel is zero-filled like a short one
			}
		}
		ss := t.MakeSS(lens)
		for ci := range lens {
			for i := 0; i < lens[ci]; i++ {
				ss.At(ci).Set(i, w.NextStamp())
			}
		}
		length := v.M.Len / v.M.C
		written := 0
		for _, l := range lens {
			written = max(written, l)
		}
		written = min(written, length)
		got := cw.pair.WriteStriped(ss, v.B)
		for ci := range lens {
			for i := 0; i < written; i++ {
				x := t.FromInt(0)
				if i < lens[ci] {
					x = ss.At(ci).Get(i)
				}
				v.M.St.Cells[v.M.Off+v.M.C*i+ci] = x
			}
		}
		if got != written {
			ps = append(ps, mon.Problem{Kind: "count", Msg: fmt.Sprintf("%v returned %d want %d", o, got, written)})
		}
	case "chanset":
		v := w.Views[o.V]
		x := w.NextStamp()
		pos := v.M.C*o.I + o.S
		if w.Covering(v.M.St, v.M.Off+pos) >= 2 {
			c.Obs("writes_visible_through_other_views", 1)
		}
		v.B.Channel(o.S).SetSample(o.I, x)
		v.M.St.Cells[v.M.Off+pos] = x
	}
	return ps
}

func mutating(k string) bool { return k != "slice" && k != "alloc" && k != "drop" }

type c12dfs struct {
	c        *core.Ctx
	t        *dyn.TypeOps
	ch, l, k int
	depth    int
	reduced  bool
	shapeID  string
	states   map[uint64]struct{}
}

func (d *c12dfs) run(prefix []c12op, seqID string, leafCounter *int) {
	c := d.c
	if c.Only != "" && !(strings.HasPrefix(c.Only, seqID) || strings.HasPrefix(seqID, c.Only)) {
		return
	}
	if c.TooMany() {
		return
	}
	// re-execute the prefix from the root on fresh real buffers
	cw := newC12World(d.t, d.ch, d.l, d.k)
	var ps []mon.Problem
	for _, o := range prefix {
		ps = cw.apply(o, c)
		if len(ps) > 0 {
			break
		}
	}
	if len(prefix) > 0 {
		c.Eval(1)
		c.Obs("steps_executed", int64(len(prefix)))
		mut := false
		for _, o := range prefix {
			mut = mut || mutating(o.Kind)
		}
		if mut {
			c.Distinct(core.HashStr(seqID))
		}
		if len(ps) == 0 {
			ps = cw.w.CheckAll()
		}
		if len(ps) > 0 {
			var ops []string
			for _, o := range prefix {
				ops = append(ops, o.String())
			}
			det := map[string]any{"type": d.t.Name, "root": map[string]int{"channels": d.ch, "length": d.l, "capacity": d.k}, "sequence": ops}
			for _, p := range ps {
				c.Violate("history["+d.t.Name+"]|"+p.Kind+"|"+prefix[len(prefix)-1].Kind, seqID, p.Msg, det)
			}
			return
		}
		d.states[cw.w.Sig()] = struct{}{}
		if len(prefix) == d.depth {
			*leafCounter++
			if *leafCounter%50000 == 1 {
				var ops []string
				for _, o := range prefix {
					ops = append(ops, o.String())
				}
				c.Sample("exhaustive-sequence", map[string]any{"type": d.t.Name, "root": []int{d.ch, d.l, d.k}, "sequence": ops})
			}
		}
	}
	if len(prefix) >= d.depth {
		return
	}
	ops := cw.enumerate(6, d.reduced, [2]int{1, 2})
	c.ObsMax("max_branching", int64(len(ops)))
	for i, o := range ops {
		if len(prefix) == 0 && !c.Mine(i) {
			continue
		}
		next := append(append([]c12op(nil), prefix...), o)
		d.run(next, seqID+"/"+o.String(), leafCounter)
	}
}

func runC12(c *core.Ctx) {
	if c.Mode == "random" {
		runC12Random(c)
		return
	}
	depth := c.Pick(3, 4)
	maxK := c.Pick(3, 4)
	types := []*dyn.TypeOps{dyn.Types[2]} // int32
	leaf := 0
	states := map[uint64]struct{}{}
	for _, t := range types {
		for ch := 1; ch <= 3; ch++ {
			for k := 0; k <= maxK; k++ {
				for l := 0; l <= k; l++ {
					d := &c12dfs{c: c, t: t, ch: ch, l: l, k: k, depth: depth, states: states,
						shapeID: fmt.Sprintf("%s/C%d/L%d/K%d", t.Name, ch, l, k)}
					d.run(nil, "ex/"+d.shapeID, &leaf)
				}
			}
		}
	}
	c.Obs("exhaustive_sequences_depth_"+itoa(depth), int64(leaf))
	if !c.Quick() {
		// depth 5 over the reduced alphabet on the smallest shapes, float64
		leaf5 := 0
		for ch := 1; ch <= 2; ch++ {
			for k := 1; k <= 2; k++ {
				for l := 0; l <= k; l++ {
					d := &c12dfs{c: c, t: dyn.Types[12], ch: ch, l: l, k: k, depth: 5, reduced: true, states: states,
						shapeID: fmt.Sprintf("float64/C%d/L%d/K%d", ch, l, k)}
					d.run(nil, "ex5/"+d.shapeID, &leaf5)
				}
			}
		}
		c.Obs("exhaustive_sequences_depth_5_reduced", int64(leaf5))
	}
	c.Obs("distinct_model_states", int64(len(states)))
	c.R.Exhaustive[fmt.Sprintf("sequences-to-depth-%d", depth)] = true
	c.Floor("writes_visible_through_other_views", 100)
	c.Floor("growth_moves_leaving_views_behind", 20)
}

func runC12Random(c *core.Ctx) {
	rnd := c.Rand(12)
	typeIDs := []int{0, 2, 3, 6, 11, 12, 14, 25} // int8 int32 int64 uint16 float32 float64 NInt16 NFloat64
	seqs := c.Pick(600, 40000)
	for si := 0; si < seqs; si++ {
		caseID := fmt.Sprintf("rnd/%d", si)
		if !c.Want(caseID) {
			// keep the random stream aligned: the sequence is still generated below
		}
		t := dyn.Types[typeIDs[rnd.Intn(len(typeIDs))]]
		ch := rnd.Range(1, 8)
		k := rnd.Range(1, 64)
		if si%25 == 24 {
			k = rnd.Range(260, 600) // more than 256 frames
			ch = 1 + ch%3
		}
		l := rnd.Range(0, k)
		cw := newC12World(t, ch, l, k)
		steps := rnd.Range(50, 200)
		var hist []string
		sig := core.NewHash().Str(t.Name).Int(ch).Int(l).Int(k)
		bad := false
		for st := 0; st < steps && !bad; st++ {
			w := cw.w
			var o c12op
			vi := rnd.Intn(len(w.Views))
			v := w.Views[vi]
			m := v.M
			frames := m.Cap / m.C
			switch r := rnd.Intn(20); {
			case r < 5 && len(w.Views) < 12:
				s := rnd.Range(0, frames)
				o = c12op{Kind: "slice", V: vi, S: s, E: rnd.Range(s, frames)}
			case r < 6 && len(w.Views) < 12 && len(w.Storages) < 12:
				kk := rnd.Range(0, 16)
				o = c12op{Kind: "alloc", S: rnd.Range(0, kk), E: kk}
			case r < 9:
				ui := rnd.Intn(len(w.Views))
				if rnd.Chance(1, 5) {
					ui = vi
				}
				if !mon.AppendPreHistories(v, w.Views[ui]) || w.Views[ui].M.Len > 512 {
					o = c12op{Kind: "appendsample", V: vi}
				} else {
					o = c12op{Kind: "append", V: vi, U: ui}
				}
			case r < 11:
				o = c12op{Kind: "appendsample", V: vi}
			case r < 12:
				o = c12op{Kind: "appendforeign", V: vi, I: rnd.Range(0, 3)}
				if rnd.Chance(1, 3) {
					o = c12op{Kind: "wstripedforeign", V: vi, I: rnd.Range(0, 3)}
				}
			case r < 15 && m.Len > 0:
				o = c12op{Kind: "set", V: vi, I: rnd.Intn(m.Len)}
			case r < 16:
				o = c12op{Kind: "write", V: vi, I: rnd.Range(0, m.Len+3)}
			case r < 17 && m.Len%m.C == 0:
				o = c12op{Kind: "wstriped", V: vi, I: rnd.Range(0, m.Len/m.C+2)}
			case r < 18 && m.Len%m.C == 0 && m.Len > 0:
				o = c12op{Kind: "chanset", V: vi, S: rnd.Intn(m.C), I: rnd.Intn(m.Len / m.C)}
			case r < 19 && len(w.Views) > 1:
				o = c12op{Kind: "drop", V: vi}
			default:
				o = c12op{Kind: "appendsample", V: vi}
			}
			hist = append(hist, o.String())
			sig.Str(o.String())
			ps := cw.apply(o, c)
			if len(ps) == 0 {
				ps = cw.w.CheckAll()
			}
			c.Obs("steps_executed", 1)
			if len(ps) > 0 {
				det := map[string]any{"type": t.Name, "root": map[string]int{"channels": ch, "length": l, "capacity": k}, "sequence": hist}
				for _, p := range ps {
					c.Violate("history["+t.Name+"]|"+p.Kind+"|"+o.Kind, caseID, p.Msg, det)
				}
				bad = true
			}
		}
		c.Eval(1)
		c.Distinct(sig.Sum())
		c.Obs("random_histories", 1)
		c.ObsMax("max_live_views", int64(len(cw.w.Views)))
		c.ObsMax("max_storages", int64(len(cw.w.Storages)))
		if si%200 == 0 {
			c.Sample("random-history", map[string]any{"type": t.Name, "root": []int{ch, l, k}, "steps": len(hist), "first_steps": hist[:min(12, len(hist))]})
		}
		if c.TooMany() {
			break
		}
	}
	c.Floor("writes_visible_through_other_views", 100)
	c.Floor("growth_moves", 100)
}

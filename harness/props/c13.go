package props

import (
	"fmt"
	"runtime"
	"sync"
	"time"

	"pipelined.dev/signal"
	"verifharness/core"
	"verifharness/dyn"
	"verifharness/mon"
)

func init() {
	register(&Def{
		ID:    "C13",
		Level: "exploration",
		Rule: "Alloc for 13 built-in + 13 named element types x channel counts x every 0<=L<=K up to a small bound plus seeded larger K (up to 8192), checked for shape, bit depth = 8*sizeof(T), zero fill over the whole capacity (through the hook and through Slice(0,K)), " +
			"and groups of 2..32 simultaneously live allocations checked for disjoint address intervals and stamp isolation; distinct = distinct (type,C,L,K) tuples and distinct group descriptors; non-trivial = capacity > 0; " +
			"also: round total capacities, allocations of 2^18..2^22 samples, named types whose name ends in other digits, the source re-read after the grown destination was overwritten",
		Assume: []string{"address intervals come from the verif hook; every allocation of a group is kept alive so addresses are not recycled"},
		Plan:   func(tier string) []Batch { return split("alloc", 8, 600) },
		Run:    runC13,
	})
}

func c13One(c *core.Ctx, t *dyn.TypeOps, ch, l, k int) dyn.Buf {
	inst := "Alloc[" + t.Name + "]"
	caseID := fmt.Sprintf("%s/C%d/L%d/K%d", t.Name, ch, l, k)
	if !c.Want(caseID) {
		return nil
	}
	d := map[string]any{"type": t.Name, "channels": ch, "length": l, "capacity": k}
	var b dyn.Buf
	if p, msg := core.Guard(func() { b = t.Alloc(signal.Allocator{Channels: ch, Length: l, Capacity: k}) }); p {
		c.Violate(inst+"|panic", caseID, "Alloc panicked: "+msg, d)
		return nil
	}
	c.Eval(1)
	if k > 0 {
		c.Distinct(core.NewHash().Str(t.Name).Int(ch).Int(l).Int(k).Sum())
	}
	c.Sample("alloc", d)
	if b.Channels() != ch || b.Length() != l || b.Capacity() != k || b.Len() != ch*l || b.Cap() != ch*k || b.RawLen() != ch*l || b.RawCap() != ch*k {
		c.Violate(inst+"|shape", caseID, fmt.Sprintf("Alloc{C=%d,L=%d,K=%d} gives %v raw=%d/%d", ch, l, k, mon.ShapeOf(b), b.RawLen(), b.RawCap()), d)
		return nil
	}
	if b.BitDepth() != t.Bits {
		key := inst + "|depth"
		c.Violate(key, caseID, fmt.Sprintf("BitDepth=%d for element type %s of %d bits", b.BitDepth(), t.Name, t.Bits), d)
	}
	nz := 0
	for i := 0; i < ch*k; i++ {
		if !b.RawAt(i).IsZero() {
			nz++
		}
	}
	full := b.Slice(0, k)
	for i := 0; i < full.Len(); i++ {
		if !full.Sample(i).IsZero() {
			nz++
		}
	}
	c.Obs("cells_checked_zero", int64(2*ch*k))
	if nz > 0 {
		c.Violate(inst+"|nonzero", caseID, fmt.Sprintf("%d non-zero cells in a fresh allocation", nz), d)
	}
	if t.Named {
		c.Obs("named_type_allocs", 1)
	}
	return b
}

func runC13(c *core.Ctx) {
	smallK := c.Pick(5, 12)
	chans := []int{1, 2, 3, 4, 5, 8, 13, 49, 64, 255, 256, 300}
	if !c.Quick() {
		chans = nil
		for i := 1; i <= 64; i++ {
			chans = append(chans, i)
		}
	}
	n := 0
	for _, t := range dyn.Types {
		for _, ch := range chans {
			for k := 0; k <= smallK; k++ {
				for l := 0; l <= k; l++ {
					n++
					if c.Mine(n) {
						c13One(c, t, ch, l, k)
					}
				}
			}
		}
	}
	// larger shapes, seeded
	r := c.Rand(13)
	for i := 0; i < c.Pick(60, 3000); i++ {
		t := dyn.Types[r.Intn(len(dyn.Types))]
		ch := r.Range(1, 64)
		k := r.Pick(r.Range(13, 64), r.Range(65, 1024), r.Range(1025, 8192))
		if ch*k > 1<<17 {
			k = (1 << 17) / ch
		}
		l := r.Pick(0, k, r.Range(0, k), k-1)
		c13One(c, t, ch, l, k)
		c.Obs("large_allocs", 1)
	}
	// "round" total capacities (powers of two, their neighbours and 3*2^k,
	// decimal and audio block sizes) split over the channel counts that divide
	// them: a size-classed fast path is keyed by the total
	var totals []int
	for sh := 4; sh <= 16; sh++ {
		totals = append(totals, 1<<sh, 3<<(sh-2))
		if sh%3 == 0 {
			totals = append(totals, 1<<sh-1, 1<<sh+1)
		}
	}
	totals = append(totals, 100, 1000, 10000, 100000, 441, 4410, 44100, 480, 4800, 48000, 960, 1920, 1152, 576)
	ti := 0
	for _, total := range totals {
		for _, ch := range []int{1, 2, 3, 4, 6, 8, 16, 64} {
			if total%ch != 0 {
				continue
			}
			k := total / ch
			for _, l := range []int{0, k, k / 2} {
				ti++
				if !c.Mine(ti) {
					continue
				}
				// two element types per shape, rotating through all of them
				for j := 0; j < 2; j++ {
					c13One(c, dyn.Types[(ti*2+j)%len(dyn.Types)], ch, l, k)
					c.Obs("round_total_allocs", 1)
				}
			}
		}
	}
	// big allocations (2^18 .. 2^22 samples: megabytes), narrow and 64-bit types
	bi := 0
	for _, total := range []int{1 << 18, 300000, 384000, 1 << 20, 1 << 22} {
		for _, ch := range []int{1, 64} {
			if total%ch != 0 {
				continue
			}
			for _, ti := range []int{3, 12, 5, 1, 8} { // int64 float64 uint8 int16 uint64
				bi++
				if !c.Mine(bi) || (c.Quick() && total > 1<<20 && ti != 3) {
					continue
				}
				k := total / ch
				c13One(c, dyn.Types[ti], ch, []int{0, k, k / 3}[bi%3], k)
				c.Obs("allocations_of_2^18_and_more_samples", 1)
			}
		}
	}
	// independence of simultaneously live allocations
	for g := 0; g < c.Pick(120, 12000); g++ {
		t := dyn.Types[r.Intn(len(dyn.Types))]
		m := r.Range(2, 32)
		caseID := fmt.Sprintf("group/%s/%d/%d", t.Name, g, m)
		if !c.Want(caseID) {
			continue
		}
		inst := "Alloc[" + t.Name + "]"
		type rec struct {
			b      dyn.Buf
			lo, hi uintptr
			salt   int
			a      signal.Allocator
		}
		var live []rec
		var shapes [][3]int
		for j := 0; j < m; j++ {
			a := signal.Allocator{Channels: r.Range(1, 8), Capacity: r.Range(1, 40)}
			a.Length = r.Range(0, a.Capacity)
			b := t.Alloc(a)
			lo := b.RawBase()
			live = append(live, rec{b: b, lo: lo, hi: lo + uintptr(b.RawCap()*t.SizeOf), salt: g*64 + j, a: a})
			shapes = append(shapes, [3]int{a.Channels, a.Length, a.Capacity})
		}
		d := map[string]any{"type": t.Name, "allocations": shapes}
		c.Eval(1)
		c.Distinct(core.NewHash().Str("group").Str(t.Name).Str(fmt.Sprint(shapes)).Sum())
		c.Sample("group", d)
		for i := range live {
			for j := i + 1; j < len(live); j++ {
				if live[i].lo < live[j].hi && live[j].lo < live[i].hi {
					c.Violate(inst+"|overlap", caseID, fmt.Sprintf("allocations %d and %d overlap: [%#x,%#x) [%#x,%#x)", i, j, live[i].lo, live[i].hi, live[j].lo, live[j].hi), d)
				}
				c.Obs("interval_pairs_checked", 1)
			}
		}
		// stamp every cell of every allocation through the library, then verify
		for _, x := range live {
			full := x.b.Slice(0, x.a.Capacity)
			for i := 0; i < full.Len(); i++ {
				full.SetSample(i, mon.Canary(t.TypeInfo, i, x.salt))
			}
		}
		for j, x := range live {
			bad := 0
			for i := 0; i < x.b.RawCap(); i++ {
				want := mon.Canary(t.TypeInfo, i, x.salt)
				if !dyn.NumEq(x.b.RawAt(i), want) {
					bad++
				}
			}
			c.Obs("stamp_cells_verified", int64(x.b.RawCap()))
			if bad > 0 {
				c.Violate(inst+"|crosstalk", caseID, fmt.Sprintf("allocation %d lost %d of its stamps after the others were written", j, bad), d)
			}
		}
	}
	// independence under growth: separate allocations (also zero-capacity
	// ones, which own no storage yet) must stay separate objects: growing or
	// writing one must not change another, nor a later allocation
	for g := 0; g < c.Pick(200, 4000); g++ {
		t := dyn.Types[r.Intn(len(dyn.Types))]
		ch := r.Range(1, 4)
		k := r.Pick(0, 0, 1, 2, r.Range(3, 9))
		l := r.Range(0, k)
		caseID := fmt.Sprintf("growth/%s/%d/C%d/L%d/K%d", t.Name, g, ch, l, k)
		if !c.Want(caseID) {
			continue
		}
		inst := "Alloc[" + t.Name + "]"
		al := signal.Allocator{Channels: ch, Length: l, Capacity: k}
		d := map[string]any{"type": t.Name, "allocator": []int{ch, l, k}, "scenario": "a := Alloc; b := Alloc; a.Append(non-empty source beyond a's capacity); inspect b and a fresh Alloc"}
		a, b := t.Alloc(al), t.Alloc(al)
		c.Eval(1)
		c.Distinct(core.NewHash().Str("growth").Str(t.Name).Int(ch).Int(l).Int(k).Sum())
		if a.Same(b) || a.HeaderAddr() == b.HeaderAddr() {
			c.Violate(inst+"|same-object", caseID, "two Alloc calls returned the same buffer object", d)
			continue
		}
		src := t.Alloc(signal.Allocator{Channels: ch, Length: k + 2, Capacity: k + 2})
		for i := 0; i < src.Len(); i++ {
			src.SetSample(i, mon.Canary(t.TypeInfo, i, g))
		}
		if p, msg := core.Guard(func() { a.Append(src) }); p {
			c.Violate(inst+"|panic", caseID, "Append onto a fresh allocation panicked: "+msg, d)
			continue
		}
		// the source is an allocation of its own: writing through the grown
		// buffer must not reach it
		for i := 0; i < a.Len(); i++ {
			a.SetSample(i, t.FromInt(int64(1+i%7)))
		}
		for i := 0; i < src.Len(); i++ {
			if want := mon.Canary(t.TypeInfo, i, g); !src.Sample(i).Same(want) {
				c.Violate(inst+"|shared-object", caseID, fmt.Sprintf("after a.Append(src) grew a (allocator {C=%d L=%d K=%d}) and a was overwritten, position %d of the separately allocated source reads %v instead of %v", ch, l, k, i, src.Sample(i), want), d)
				break
			}
		}
		c.Obs("sources_rechecked_after_writing_through_the_grown_destination", 1)
		fresh := t.Alloc(al)
		for name, x := range map[string]dyn.Buf{"the other allocation": b, "a later allocation": fresh} {
			bad := x.Len() != ch*l || x.Cap() != ch*k || x.RawLen() != ch*l || x.RawCap() != ch*k
			for i := 0; !bad && i < x.RawCap(); i++ {
				bad = !x.RawAt(i).IsZero()
			}
			if bad {
				c.Violate(inst+"|shared-object", caseID, fmt.Sprintf("after growing one allocation by Append, %s reads %v (allocator {C=%d L=%d K=%d})", name, mon.ShapeOf(x), ch, l, k), d)
			}
		}
		// a VIEW of a live buffer outgrows the storage it shares with its
		// parent: the storage it leaves behind is still the parent's, and later
		// allocations (same size and smaller) must neither overlap nor wipe it
		if k > 0 {
			p := t.Alloc(signal.Allocator{Channels: ch, Length: k, Capacity: k})
			for i := 0; i < p.Len(); i++ {
				p.SetSample(i, mon.Canary(t.TypeInfo, i, 300+g))
			}
			var want []dyn.Val
			for i := 0; i < p.RawCap(); i++ {
				want = append(want, p.RawAt(i))
			}
			s := r.Range(0, k-1)
			v := p.Slice(s, r.Range(s, k))
			if pn, msg := core.Guard(func() { v.Append(src) }); pn {
				c.Violate(inst+"|panic", caseID, "Append onto a view of a fresh allocation panicked: "+msg, d)
				continue
			}
			plo, phi := p.RawBase(), p.RawBase()+uintptr(p.RawCap()*t.SizeOf)
			var later []dyn.Buf
			for _, k2 := range []int{k, k, max(k-1, 1), 1, (k + 1) / 2} {
				q := t.Alloc(signal.Allocator{Channels: ch, Length: r.Range(0, k2), Capacity: k2})
				later = append(later, q)
				if lo, hi := q.RawBase(), q.RawBase()+uintptr(q.RawCap()*t.SizeOf); lo < phi && plo < hi {
					c.Violate(inst+"|shares-live-storage", caseID, fmt.Sprintf("an allocation of %d frames made after a view of a live buffer was grown by Append overlaps that buffer's storage", k2), d)
					break
				}
				for i := 0; i < q.RawCap(); i++ {
					if !q.RawAt(i).IsZero() {
						c.Violate(inst+"|dirty", caseID, fmt.Sprintf("an allocation of %d frames made after a view of a live buffer was grown by Append is not zero at position %d", k2, i), d)
						break
					}
				}
			}
			for i, w := range want {
				if !p.RawAt(i).Same(w) {
					c.Violate(inst+"|crosstalk", caseID, fmt.Sprintf("a live buffer lost its sample at position %d (%v, now %v) when allocations were made after one of its views had been grown by Append", i, w, p.RawAt(i)), d)
					break
				}
			}
			runtime.KeepAlive(later)
			c.Obs("allocations_after_a_view_of_a_live_buffer_was_grown", int64(len(later)))
		}
		if k == 0 {
			c.Obs("zero_capacity_pairs_checked_under_growth", 1)
		}
		c.Obs("pairs_checked_under_growth", 1)
	}
	// allocations after earlier buffers were dropped and collected: storage
	// that comes back through the garbage collector (finalizers, free lists)
	// must be zero over the whole capacity and must not be shared with views
	// that are still alive
	for g := 0; g < c.Pick(12, 150); g++ {
		t := dyn.Types[r.Intn(len(dyn.Types))]
		al := signal.Allocator{Channels: r.Range(1, 4), Capacity: r.Range(2, 24)}
		al.Length = r.Range(0, al.Capacity-1)
		caseID := fmt.Sprintf("aftergc/%s/%d", t.Name, g)
		if !c.Want(caseID) {
			continue
		}
		inst := "Alloc[" + t.Name + "]"
		d := map[string]any{"type": t.Name, "allocator": []int{al.Channels, al.Length, al.Capacity},
			"scenario": "buffers written over their whole capacity through Slice(0,K) are dropped; views of other dropped buffers stay alive; GC x2; new allocations of the same shape"}
		func() { // dropped completely
			for i := 0; i < 24; i++ {
				b := t.Alloc(al)
				full := b.Slice(0, al.Capacity)
				for j := 0; j < full.Len(); j++ {
					full.SetSample(j, mon.Canary(t.TypeInfo, j, g+i))
				}
			}
		}()
		var liveViews []dyn.Buf // the parent header is dropped, a view of its storage stays
		for i := 0; i < 8; i++ {
			v := t.Alloc(al).Slice(0, al.Capacity)
			for j := 0; j < v.Len(); j++ {
				v.SetSample(j, mon.Canary(t.TypeInfo, j, 900+i))
			}
			liveViews = append(liveViews, v)
		}
		for i := 0; i < 3; i++ {
			runtime.GC()
			runtime.Gosched()
			time.Sleep(time.Millisecond) // finalizers run on their own goroutine
		}
		c.Eval(1)
		c.Distinct(core.NewHash().Str("aftergc").Str(t.Name).Int(al.Channels).Int(al.Length).Int(al.Capacity).Sum())
		var fresh []dyn.Buf
		for i := 0; i < 40; i++ {
			nb := t.Alloc(al)
			fresh = append(fresh, nb)
			bad := nb.RawLen() != al.Channels*al.Length || nb.RawCap() != al.Channels*al.Capacity
			for j := 0; !bad && j < nb.RawCap(); j++ {
				if !nb.RawAt(j).IsZero() {
					c.Violate(inst+"|dirty-after-gc", caseID, fmt.Sprintf("allocation #%d after a garbage collection holds %v at position %d (length %d, capacity %d)", i, nb.RawAt(j), j, nb.RawLen(), nb.RawCap()), d)
					bad = true
				}
			}
			lo, hi := nb.RawBase(), nb.RawBase()+uintptr(nb.RawCap()*t.SizeOf)
			for vi, v := range liveViews {
				vlo, vhi := v.RawBase(), v.RawBase()+uintptr(v.RawCap()*t.SizeOf)
				if lo < vhi && vlo < hi {
					c.Violate(inst+"|shares-live-view", caseID, fmt.Sprintf("allocation #%d after a garbage collection overlaps the storage of live view %d", i, vi), d)
				}
			}
			if bad {
				break
			}
		}
		// write the new ones, then the live views must still hold their stamps
		for i, nb := range fresh {
			full := nb.Slice(0, al.Capacity)
			for j := 0; j < full.Len(); j++ {
				full.SetSample(j, mon.Canary(t.TypeInfo, j, 5000+i))
			}
		}
		for vi, v := range liveViews {
			for j := 0; j < v.Len(); j++ {
				if want := mon.Canary(t.TypeInfo, j, 900+vi); !dyn.NumEq(v.Sample(j), want) {
					c.Violate(inst+"|crosstalk-after-gc", caseID, fmt.Sprintf("live view %d lost its stamp at position %d after new allocations were written", vi, j), d)
					break
				}
			}
		}
		// buffers grown by Append before the collection must still hold
		// their samples afterwards (their new storage is reachable only
		// through the buffer header)
		type grownRec struct {
			b    dyn.Buf
			want []dyn.Val
		}
		var grown []grownRec
		for i := 0; i < 6; i++ {
			gb := t.Alloc(al)
			src := t.Alloc(signal.Allocator{Channels: al.Channels, Length: al.Capacity + 3 + i, Capacity: al.Capacity + 3 + i})
			for j := 0; j < src.Len(); j++ {
				src.SetSample(j, mon.Canary(t.TypeInfo, j, 7000+i))
			}
			gb.Append(src)
			var want []dyn.Val
			for j := 0; j < gb.Len(); j++ {
				want = append(want, gb.Sample(j))
			}
			grown = append(grown, grownRec{gb, want})
		}
		for i := 0; i < 2; i++ {
			runtime.GC()
			runtime.Gosched()
		}
		var churn []dyn.Buf
		for i := 0; i < 200; i++ { // later allocations of similar size classes, written
			nb := t.Alloc(signal.Allocator{Channels: al.Channels, Length: al.Capacity + i%9, Capacity: al.Capacity + 3 + i%9})
			for j := 0; j < nb.Len(); j++ {
				nb.SetSample(j, mon.Canary(t.TypeInfo, j, 9000+i))
			}
			churn = append(churn, nb)
		}
		for gi, gr := range grown {
			for j, w := range gr.want {
				if j >= gr.b.Len() || !gr.b.Sample(j).Same(w) {
					c.Violate(inst+"|grown-buffer-lost-after-gc", caseID, fmt.Sprintf("buffer %d grown by Append before a garbage collection: sample %d changed from %v", gi, j, w), d)
					break
				}
			}
		}
		runtime.KeepAlive(churn)
		c.Obs("grown_buffers_rechecked_after_gc", int64(len(grown)))
		c.Obs("allocation_rounds_after_forced_gc", 1)
		runtime.KeepAlive(liveViews)
	}
	// allocations of DIFFERENT element types made at the same time from
	// several goroutines: each goroutine checks its own buffers (shape, bit
	// depth, zero contents) and hands back the first disagreement
	if c.Mine(0) && c.Want("concurrent-types") {
		const G = 8
		type bad struct{ key, msg string }
		res := make([][]bad, G)
		counts := make([]int64, G)
		var wg sync.WaitGroup
		start := make(chan struct{})
		rounds := c.Pick(4000, 40000)
		for g := 0; g < G; g++ {
			wg.Add(1)
			go func(g int) {
				defer wg.Done()
				rr := core.NewRand(c.Seed, 1313, uint64(g))
				<-start
				for i := 0; i < rounds && len(res[g]) == 0; i++ {
					t := dyn.Types[(g*5+i/64)%len(dyn.Types)] // each goroutine stays on one type for a while
					al := signal.Allocator{Channels: rr.Range(1, 4), Capacity: rr.Range(0, 6)}
					al.Length = rr.Range(0, al.Capacity)
					var b dyn.Buf
					if p, msg := core.Guard(func() { b = t.Alloc(al) }); p {
						res[g] = append(res[g], bad{"Alloc[" + t.Name + "]|panic", "Alloc panicked while other goroutines allocated other element types: " + msg})
						break
					}
					counts[g]++
					if b.BitDepth() != t.Bits {
						res[g] = append(res[g], bad{"Alloc[" + t.Name + "]|depth", fmt.Sprintf("BitDepth=%d for element type %s of %d bits (allocation %d of goroutine %d, other goroutines allocating other element types at the same time)", b.BitDepth(), t.Name, t.Bits, i, g)})
					}
					if b.Channels() != al.Channels || b.Length() != al.Length || b.Capacity() != al.Capacity || b.RawLen() != al.Channels*al.Length || b.RawCap() != al.Channels*al.Capacity {
						res[g] = append(res[g], bad{"Alloc[" + t.Name + "]|shape", fmt.Sprintf("Alloc{C=%d,L=%d,K=%d} gives %v while other goroutines allocate", al.Channels, al.Length, al.Capacity, mon.ShapeOf(b))})
					}
					for j := 0; j < b.RawCap(); j++ {
						if !b.RawAt(j).IsZero() {
							res[g] = append(res[g], bad{"Alloc[" + t.Name + "]|nonzero", fmt.Sprintf("position %d of a fresh allocation is %v while other goroutines allocate", j, b.RawAt(j))})
							break
						}
					}
					if i%7 == 0 {
						runtime.Gosched()
					}
				}
			}(g)
		}
		close(start)
		wg.Wait()
		for g := 0; g < G; g++ {
			c.Eval(counts[g])
			c.Obs("allocations_made_while_other_goroutines_allocate_other_element_types", counts[g])
			for _, b := range res[g] {
				c.Violate(b.key, "concurrent-types", b.msg, map[string]any{"goroutines": G, "scenario": "8 goroutines allocate buffers of different element types at the same time"})
			}
		}
	}
	c.Floor("allocation_rounds_after_forced_gc", 10)
	c.Floor("zero_capacity_pairs_checked_under_growth", 20)
	c.Floor("named_type_allocs", 13)
	c.Floor("interval_pairs_checked", 100)
}

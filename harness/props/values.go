package props

import (
	"math"

	"verifharness/core"
	"verifharness/dyn"
)

// randSample draws an arbitrary sample of the element type: integers with
// random magnitude and boundary values; floats in and far outside [-1,1],
// next to +-1 and 0, subnormal, infinite and (optionally) NaN.
func randSample(r *core.Rand, t *dyn.TypeInfo, allowNaN bool) dyn.Val {
	switch t.Kind {
	case dyn.KInt:
		var v int64
		switch r.Intn(8) {
		case 0:
			v = t.MinI() + int64(r.Intn(3))
		case 1:
			v = t.MaxI() - int64(r.Intn(3))
		case 2:
			v = int64(r.Intn(5)) - 2
		default:
			v = int64(r.Uint64()) >> uint(64-t.Bits+r.Intn(t.Bits))
		}
		return dyn.IntVal(v)
	case dyn.KUint:
		var v uint64
		switch r.Intn(8) {
		case 0:
			v = uint64(r.Intn(3))
		case 1:
			v = t.MaxU() - uint64(r.Intn(3))
		case 2:
			v = uint64(1)<<(t.Bits-1) + uint64(r.Intn(5)) - 2
		default:
			v = (r.Uint64() >> uint(64-t.Bits)) >> uint(r.Intn(t.Bits))
		}
		return dyn.UintVal(v)
	}
	var f float64
	switch r.Intn(13) {
	case 12:
		// around the largest float32: the band between MaxFloat32 and the IEEE
		// halfway point to 2^128 still narrows to MaxFloat32, beyond it overflows
		half := math.Ldexp(1, 128) - math.Ldexp(1, 103)
		f = []float64{math.MaxFloat32, math.MaxFloat32 * (1 + 1e-9), math.Nextafter(math.MaxFloat32, math.Inf(1)), math.Nextafter(half, 0), half, math.Nextafter(half, math.Inf(1)), math.Ldexp(1, 128),
			// and around the smallest ones: half the smallest subnormal float32 and its neighbours
			math.Ldexp(1, -150), math.Nextafter(math.Ldexp(1, -150), 1), math.Nextafter(math.Ldexp(1, -150), 0), math.Ldexp(1, -149), math.Ldexp(1, -126), math.Nextafter(math.Ldexp(1, -126), 0)}[r.Intn(13)]
		if r.Bool() {
			f = -f
		}
	case 0:
		f = math.Inf(1)
	case 1:
		f = math.Inf(-1)
	case 2:
		if allowNaN {
			f = math.NaN()
		} else {
			f = 0
		}
	case 3:
		f = math.Copysign(0, -1)
	case 4:
		f = math.Ldexp(r.Float64()*2-1, r.Range(-1080, -120)) // tiny / subnormal
	case 5:
		f = math.Ldexp(r.Float64()*2-1, r.Range(1, 1000)) // far outside
	case 6:
		f = 1
		for i := r.Intn(4); i > 0; i-- {
			f = math.Nextafter(f, float64(r.Intn(3)))
		}
		if r.Bool() {
			f = -f
		}
	case 7:
		f = float64(r.Range(-70000, 70000))
	default:
		f = r.Float64()*2 - 1
	}
	if t.Bits == 32 {
		f = float64(float32(f))
	}
	return dyn.FloatVal(f)
}

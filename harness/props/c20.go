package props

import (
	"fmt"

	"pipelined.dev/signal"
	"verifharness/core"
	"verifharness/dyn"
	"verifharness/mon"
)

func init() {
	register(&Def{
		ID:    "C20",
		Level: "exploration",
		Rule: "finite grid of degenerate allocators (Channels in 0..3, Length in 0..2, Capacity in 0..4 with at least one of them 0, L<=K) x element types x every exported entry point (every other zero-length buffer with capacity is a recycled one: handed out by a pool, filled sample by sample, put back, handed out again) " +
			"(shape accessors, Read/Write/ReadStriped/WriteStriped over type pairs, the nine conversions as source and as destination, AppendSample, Append(empty), Slice(0,0), ChannelLength(n,0)); " +
			"a case = one entry point on one degenerate buffer; distinct = distinct (entry point, instantiation, allocator, argument) tuples; all are non-trivial (each one executes library code on a degenerate shape)",
		Assume:    []string{"ChannelLength(n,0) is accepted when it does not panic and returns a count in [0,n]"},
		Exhaustiv: "the grid of degenerate allocators x entry points is enumerated completely (all 169 type pairs / 169 conversion instantiations in the thorough tier)",
		Plan:      func(tier string) []Batch { return split("grid", 4, 600) },
		Run:       runC20,
	})
}

type degen struct{ ch, l, k int }

func degenGrid() []degen {
	var g []degen
	for ch := 0; ch <= 3; ch++ {
		for k := 0; k <= 4; k++ {
			for l := 0; l <= 2 && l <= k; l++ {
				if ch == 0 || l == 0 || k == 0 {
					g = append(g, degen{ch, l, k})
				}
			}
		}
	}
	// zero channels with non-zero length/capacity requested, also Length > Capacity
	// (nothing is allocated for zero channels, so every such allocator is inert)
	g = append(g, degen{0, 3, 7}, degen{0, 4, 2}, degen{0, 3, 0}, degen{0, 9, 8})
	return g
}

func runC20(c *core.Ctx) {
	grid := degenGrid()
	n := 0
	ev := func(inst, kind, caseID string, d map[string]any) {
		c.Eval(1)
		c.Distinct(core.NewHash().Str(inst).Str(kind).Str(caseID).Sum())
		c.Obs("calls_"+kind, 1)
	}
	// ChannelLength with zero channels
	if c.Mine(0) {
		for _, sl := range []int{0, 1, 2, 3, 7, 100, 1 << 20, 1<<62 + 5} {
			caseID := fmt.Sprintf("ChannelLength/%d", sl)
			d := map[string]any{"sliceLen": sl, "channels": 0}
			var got int
			ev("ChannelLength", "channellength", caseID, d)
			if p, msg := core.Guard(func() { got = signal.ChannelLength(sl, 0) }); p {
				c.Violate("ChannelLength|panic", caseID, fmt.Sprintf("ChannelLength(%d,0) panicked: %s", sl, msg), d)
			} else if got < 0 || got > sl {
				c.Violate("ChannelLength|meaningless", caseID, fmt.Sprintf("ChannelLength(%d,0)=%d", sl, got), d)
			}
		}
	}
	pairAll := !c.Quick()
	for gi, g := range grid {
		zeroShape := g.ch == 0 || g.k == 0 // lengths and capacities must all be 0
		for ti, t := range dyn.Types[:dyn.NBuiltin] {
			n++
			if !c.Mine(n) {
				continue
			}
			base := fmt.Sprintf("%s/C%d/L%d/K%d", t.Name, g.ch, g.l, g.k)
			if !c.Want(base) {
				continue
			}
			d := map[string]any{"type": t.Name, "allocator": []int{g.ch, g.l, g.k}}
			mk := func() dyn.Buf {
				a := signal.Allocator{Channels: g.ch, Length: g.l, Capacity: g.k}
				if !zeroShape && g.l == 0 && (gi+ti)%2 == 1 {
					// the zero-length buffer is a recycled one: it was handed out by a
					// pool, filled sample by sample, put back and handed out again
					// (whatever a used buffer remembers must not show)
					pool := t.PoolAlloc(a)
					for i := 0; i < 3; i++ {
						u := pool.Get()
						for j := 0; j < g.ch*g.k-1; j++ {
							u.AppendSample(t.FromInt(int64(1 + j%100)))
						}
						pool.Put(u)
					}
					c.Obs("zero_length_buffers_recycled_through_a_pool_after_use", 1)
					return pool.Get()
				}
				return t.Alloc(a)
			}
			var b dyn.Buf
			if p, msg := core.Guard(func() { b = mk() }); p {
				c.Violate("Alloc["+t.Name+"]|panic", base, "Alloc panicked: "+msg, d)
				continue
			}
			c.Sample("degenerate", d)
			inertCheck := func(what string, bb dyn.Buf) {
				// nothing may have been transferred into the buffer: every
				// cell of its capacity is still zero and its shape unchanged
				wantLen := g.ch * g.l
				wantCap := g.ch * g.k
				if bb.RawLen() != wantLen || bb.RawCap() != wantCap {
					c.Violate(what+"|shape", base, fmt.Sprintf("%s changed the buffer shape to len=%d cap=%d (was %d/%d)", what, bb.RawLen(), bb.RawCap(), wantLen, wantCap), d)
					return
				}
				for i := 0; i < bb.RawCap(); i++ {
					if !bb.RawAt(i).IsZero() {
						c.Violate(what+"|transferred", base, fmt.Sprintf("%s stored %v at position %d of a degenerate buffer", what, bb.RawAt(i), i), d)
						return
					}
				}
			}
			// --- shape accessors
			ev("shape", "shape", base, d)
			if zeroShape {
				if b.Len() != 0 || b.Cap() != 0 || b.Length() != 0 || b.Capacity() != 0 {
					c.Violate("shape["+t.Name+"]|nonzero", base, fmt.Sprintf("degenerate buffer reports %v", mon.ShapeOf(b)), d)
				}
			} else if b.Len() != 0 || b.Length() != 0 {
				c.Violate("shape["+t.Name+"]|nonzero", base, fmt.Sprintf("zero-length buffer reports %v", mon.ShapeOf(b)), d)
			}
			// --- channel views and index arithmetic on the degenerate shape
			ev("Channel", "channel-view", base, d)
			if p, msg := core.Guard(func() {
				for cc := 0; cc < max(g.ch, 1); cc++ {
					cv := b.Channel(cc)
					wl, wc := 0, 0
					if !zeroShape {
						wc = g.k
					}
					if cv.Channels() != 1 || cv.Length() != wl || cv.Capacity() != wc {
						c.Violate("Channel["+t.Name+"]|nonzero", base, fmt.Sprintf("channel view of a degenerate buffer reports channels/length/capacity %d/%d/%d", cv.Channels(), cv.Length(), cv.Capacity()), d)
					}
					_ = cv.BufferIndex(cc, 0)
				}
				_ = b.BufferIndex(0, 0)
				if b.Channels() != g.ch || b.BitDepth() != t.Bits {
					c.Violate("shape["+t.Name+"]|wrong", base, fmt.Sprintf("degenerate buffer reports %d channels, depth %d", b.Channels(), b.BitDepth()), d)
				}
			}); p {
				c.Violate("Channel["+t.Name+"]|panic", base, "channel view accessors panicked on a degenerate buffer: "+msg, d)
			}
			// --- Slice(0,0)
			ev("Slice", "slice", base, d)
			if g.ch > 0 || true {
				var s dyn.Buf
				if p, msg := core.Guard(func() { s = b.Slice(0, 0) }); p {
					c.Violate("Slice["+t.Name+"]|panic", base, "Slice(0,0) panicked: "+msg, d)
				} else if s.Len() != 0 || s.Length() != 0 {
					c.Violate("Slice["+t.Name+"]|nonzero", base, fmt.Sprintf("Slice(0,0) has %v", mon.ShapeOf(s)), d)
				}
			}
			// --- AppendSample on zero capacity is a no-op
			if zeroShape {
				ev("AppendSample", "appendsample", base, d)
				bb := mk()
				for i := 0; i < 3; i++ {
					if p, msg := core.Guard(func() { bb.AppendSample(mon.Canary(t.TypeInfo, i, 3)) }); p {
						c.Violate("AppendSample["+t.Name+"]|panic", base, "AppendSample panicked: "+msg, d)
						break
					}
				}
				if bb.Len() != 0 || bb.Cap() != 0 || bb.Length() != 0 || bb.Capacity() != 0 || bb.RawLen() != 0 || bb.RawCap() != 0 {
					c.Violate("AppendSample["+t.Name+"]|changed", base, fmt.Sprintf("AppendSample changed a zero-capacity buffer: %v", mon.ShapeOf(bb)), d)
				}
			}
			// --- Append(empty)
			for _, ek := range []int{0, 2} {
				ev("Append", "append-empty", base+fmt.Sprint("/e", ek), d)
				bb := mk()
				e := t.Alloc(signal.Allocator{Channels: g.ch, Length: 0, Capacity: ek})
				if p, msg := core.Guard(func() { bb.Append(e) }); p {
					c.Violate("Append["+t.Name+"]|panic", base, fmt.Sprintf("Append(empty buffer of capacity %d) panicked: %s", ek, msg), d)
				} else {
					if bb.Len() != g.ch*g.l || bb.Length() != func() int {
						if g.ch == 0 {
							return 0
						}
						return g.l
					}() {
						c.Violate("Append["+t.Name+"]|changed", base, fmt.Sprintf("Append(empty) changed the length: %v", mon.ShapeOf(bb)), d)
					}
					if zeroShape && (bb.Cap() != 0 || bb.Capacity() != 0) {
						c.Violate("Append["+t.Name+"]|changed", base, fmt.Sprintf("Append(empty) gave a zero-capacity buffer capacity: %v", mon.ShapeOf(bb)), d)
					}
				}
				// and self-append of a degenerate buffer
				bb = mk()
				if g.l == 0 || g.ch == 0 {
					ev("Append", "append-self", base, d)
					if p, msg := core.Guard(func() { bb.Append(bb) }); p {
						c.Violate("Append["+t.Name+"]|panic", base, "Append(itself) panicked on an empty buffer: "+msg, d)
					} else if bb.Len() != 0 {
						c.Violate("Append["+t.Name+"]|changed", base, fmt.Sprintf("self-append of an empty buffer changed it: %v", mon.ShapeOf(bb)), d)
					}
				}
			}
			// --- pool allocator on the degenerate shape: get / use / put / get
			{
				cid := base + "/pool"
				ev("Pool["+t.Name+"]", "pool-cycle", cid, d)
				p, msg := core.Guard(func() {
					pool := t.PoolAlloc(signal.Allocator{Channels: g.ch, Length: g.l, Capacity: g.k})
					for round := 0; round < 3; round++ {
						gb := pool.Get()
						wantLen := g.ch * g.l
						if gb.Channels() != g.ch {
							c.Violate("Pool["+t.Name+"]|shape", cid, fmt.Sprintf("round %d: Get on a degenerate allocator with %d channels returned a buffer with %d channels", round, g.ch, gb.Channels()), d)
							return
						}
						if gb.RawLen() != wantLen || gb.RawCap() != g.ch*g.k {
							c.Violate("Pool["+t.Name+"]|shape", cid, fmt.Sprintf("round %d: Get on a degenerate allocator returned %v", round, mon.ShapeOf(gb)), d)
							return
						}
						if zeroShape && (gb.Len() != 0 || gb.Cap() != 0 || gb.Length() != 0 || gb.Capacity() != 0) {
							c.Violate("Pool["+t.Name+"]|nonzero", cid, fmt.Sprintf("round %d: pooled degenerate buffer reports %v", round, mon.ShapeOf(gb)), d)
							return
						}
						for i := 0; i < gb.RawCap(); i++ {
							if !gb.RawAt(i).IsZero() {
								c.Violate("Pool["+t.Name+"]|dirty", cid, fmt.Sprintf("round %d: pooled buffer holds %v at %d", round, gb.RawAt(i), i), d)
								return
							}
						}
						gb.AppendSample(mon.Canary(t.TypeInfo, round, 5))
						if round == 0 {
							// an Append of an EMPTY buffer with another channel count, which
							// the library has to refuse, must leave the pooled buffer as it is
							other := t.Alloc(signal.Allocator{Channels: g.ch + 2})
							core.Guard(func() { gb.Append(other) })
							c.Obs("refused_appends_on_degenerate_pool_buffers", 1)
						}
						if round == 1 {
							// a foreign, filled buffer of another total capacity is offered
							// to the pool in between: whatever Put answers, the pool keeps
							// handing out inert buffers
							foreign := t.Alloc(signal.Allocator{Channels: 1, Length: g.ch*g.k + 3, Capacity: g.ch*g.k + 3})
							for i := 0; i < foreign.Len(); i++ {
								foreign.SetSample(i, mon.Canary(t.TypeInfo, i, 6))
							}
							core.Guard(func() { pool.Put(foreign) })
							c.Obs("foreign_buffers_offered_to_degenerate_pools", 1)
						}
						pool.Put(gb)
					}
				})
				if p {
					c.Violate("Pool["+t.Name+"]|panic", cid, "get/put cycle on a pool with a degenerate allocator panicked: "+msg, d)
				}
				// several buffers outstanding; one of them is grown by Append (legal:
				// a zero-capacity buffer may grow); the others and later Gets stay inert
				ev("Pool["+t.Name+"]", "pool-outstanding", cid, d)
				if p, msg := core.Guard(func() {
					pool := t.PoolAlloc(signal.Allocator{Channels: g.ch, Length: g.l, Capacity: g.k})
					g1, g2 := pool.Get(), pool.Get()
					if g1.Same(g2) || g1.HeaderAddr() == g2.HeaderAddr() {
						c.Violate("Pool["+t.Name+"]|same-object", cid, "two Gets without a Put returned the same buffer object", d)
						return
					}
					if g.ch > 0 {
						src := t.Alloc(signal.Allocator{Channels: g.ch, Length: g.k + 2, Capacity: g.k + 2})
						for i := 0; i < src.Len(); i++ {
							src.SetSample(i, mon.Canary(t.TypeInfo, i, 8))
						}
						g1.Append(src) // grows beyond the (zero or small) capacity
					}
					g3 := pool.Get()
					for name, x := range map[string]dyn.Buf{"the other outstanding buffer": g2, "a later Get": g3} {
						if x.RawLen() != g.ch*g.l || x.RawCap() != g.ch*g.k {
							c.Violate("Pool["+t.Name+"]|shared-object", cid, fmt.Sprintf("after one pooled buffer was grown by Append, %s reads %v", name, mon.ShapeOf(x)), d)
							return
						}
					}
				}); p {
					c.Violate("Pool["+t.Name+"]|panic", cid, "pool with a degenerate allocator and several buffers outstanding panicked: "+msg, d)
				}
			}
			// --- Read / Write / striped forms
			for oi, o := range dyn.Types[:dyn.NBuiltin] {
				if !pairAll && !(oi == ti || (oi+gi)%5 == 0) {
					continue
				}
				for _, sl := range []int{-1, 0, 3} {
					cid := fmt.Sprintf("%s/%s/n%d", base, o.Name, sl)
					// Read: buffer type t -> slice type o
					pr := dyn.Pairs[t.ID][o.ID]
					dst := mon.NewSl(o, sl, func(i int) dyn.Val { return mon.Canary(o.TypeInfo, i, 9) })
					bb := mk()
					var ret int
					ev("Read["+t.Name+","+o.Name+"]", "read", cid, d)
					if p, msg := core.Guard(func() { ret = pr.Read(bb, dst.S) }); p {
						c.Violate("Read["+t.Name+","+o.Name+"]|panic", cid, "Read panicked: "+msg, d)
					} else {
						if ret != 0 {
							c.Violate("Read["+t.Name+","+o.Name+"]|count", cid, fmt.Sprintf("Read on a degenerate buffer returned %d", ret), d)
						}
						report(c, "Read["+t.Name+","+o.Name+"]", cid, dst.Verify("dst"), d)
						inertCheck("Read["+t.Name+","+o.Name+"]", bb)
					}
					// Write: slice type o -> buffer type t
					pw := dyn.Pairs[o.ID][t.ID]
					src := mon.NewSl(o, sl, func(i int) dyn.Val { return mon.Canary(o.TypeInfo, i, 11) })
					bb = mk()
					ev("Write["+o.Name+","+t.Name+"]", "write", cid, d)
					if p, msg := core.Guard(func() { ret = pw.Write(src.S, bb) }); p {
						c.Violate("Write["+o.Name+","+t.Name+"]|panic", cid, "Write panicked: "+msg, d)
					} else {
						if ret != 0 {
							c.Violate("Write["+o.Name+","+t.Name+"]|count", cid, fmt.Sprintf("Write on a degenerate buffer returned %d", ret), d)
						}
						report(c, "Write["+o.Name+","+t.Name+"]", cid, src.Verify("src"), d)
						inertCheck("Write["+o.Name+","+t.Name+"]", bb)
					}
					// striped: exactly `channels` slices
					lens := make([]int, g.ch)
					for i := range lens {
						lens[i] = sl
						if i == 1 {
							lens[i] = 2
						}
					}
					ss := o.MakeSS(lens)
					for ci := 0; ci < ss.N(); ci++ {
						s := ss.At(ci)
						for i := 0; i < s.Len(); i++ {
							s.Set(i, mon.Canary(o.TypeInfo, i, 20+ci))
						}
					}
					snapshot := func() [][]dyn.Val {
						var out [][]dyn.Val
						for ci := 0; ci < ss.N(); ci++ {
							var row []dyn.Val
							for i := 0; i < ss.At(ci).Len(); i++ {
								row = append(row, ss.At(ci).Get(i))
							}
							out = append(out, row)
						}
						return out
					}
					before := snapshot()
					same := func() bool {
						after := snapshot()
						for i := range before {
							for j := range before[i] {
								if !before[i][j].Same(after[i][j]) {
									return false
								}
							}
						}
						return true
					}
					bb = mk()
					ev("ReadStriped["+t.Name+","+o.Name+"]", "readstriped", cid, d)
					if p, msg := core.Guard(func() { ret = pr.ReadStriped(bb, ss) }); p {
						c.Violate("ReadStriped["+t.Name+","+o.Name+"]|panic", cid, "ReadStriped panicked: "+msg, d)
					} else {
						if ret != 0 {
							c.Violate("ReadStriped["+t.Name+","+o.Name+"]|count", cid, fmt.Sprintf("ReadStriped on a degenerate buffer returned %d", ret), d)
						}
						if !same() {
							c.Violate("ReadStriped["+t.Name+","+o.Name+"]|transferred", cid, "ReadStriped changed the caller's slices", d)
						}
						inertCheck("ReadStriped["+t.Name+","+o.Name+"]", bb)
					}
					bb = mk()
					ev("WriteStriped["+o.Name+","+t.Name+"]", "writestriped", cid, d)
					if p, msg := core.Guard(func() { ret = pw.WriteStriped(ss, bb) }); p {
						c.Violate("WriteStriped["+o.Name+","+t.Name+"]|panic", cid, "WriteStriped panicked: "+msg, d)
					} else {
						if ret != 0 {
							c.Violate("WriteStriped["+o.Name+","+t.Name+"]|count", cid, fmt.Sprintf("WriteStriped on a degenerate buffer returned %d", ret), d)
						}
						if !same() {
							c.Violate("WriteStriped["+o.Name+","+t.Name+"]|transferred", cid, "WriteStriped changed the caller's slices", d)
						}
						inertCheck("WriteStriped["+o.Name+","+t.Name+"]", bb)
					}
				}
			}
			// --- same-type conversion where the zero-length destination is a view
			// of the very storage the (non-empty) source reads
			if g.ch > 0 && g.k > 0 && g.l == 0 {
				for _, cv := range dyn.Convs {
					if cv.S.ID != t.ID || cv.D.ID != t.ID {
						continue
					}
					cid := base + "/" + cv.Name() + "/same-storage"
					ev(cv.Name(), "conv-same-storage", cid, d)
					bb := mk() // length 0, capacity k
					full := bb.Slice(0, g.k)
					for i := 0; i < full.Len(); i++ {
						full.SetSample(i, mon.Canary(t.TypeInfo, i, 13))
					}
					for name, dst := range map[string]dyn.Buf{"the zero-length buffer itself": bb, "an empty tail view": bb.Slice(g.k, g.k), "an empty view at frame 0": bb.Slice(0, 0)} {
						var ret int
						if p, msg := core.Guard(func() { ret = cv.Call(full, dst) }); p {
							c.Violate(cv.Name()+"|panic", cid, "conversion into "+name+" of the source's storage panicked: "+msg, d)
						} else if ret != 0 || dst.Len() != 0 {
							c.Violate(cv.Name()+"|count", cid, fmt.Sprintf("conversion into %s of the source's storage returned %d (destination length %d)", name, ret, dst.Len()), d)
						}
					}
					for i := 0; i < full.Len(); i++ {
						if !dyn.NumEq(full.Sample(i), mon.Canary(t.TypeInfo, i, 13)) {
							c.Violate(cv.Name()+"|transferred", cid, "conversion into a zero-length view changed the storage", d)
							break
						}
					}
				}
			}
			// --- conversions, degenerate buffer as source and as destination
			ci := 0
			for _, cv := range dyn.Convs {
				asSrc := cv.S.ID == t.ID
				asDst := cv.D.ID == t.ID
				if !asSrc && !asDst {
					continue
				}
				ci++
				if !pairAll && (ci+gi)%4 != 0 {
					continue
				}
				other := func(o *dyn.TypeOps) (dyn.Buf, []dyn.Val) {
					ob := o.Alloc(signal.Allocator{Channels: g.ch, Length: 3, Capacity: 4})
					var snap []dyn.Val
					for i := 0; i < ob.RawCap(); i++ {
						v := mon.Canary(o.TypeInfo, i, 77)
						if o.Kind == dyn.KFloat {
							v = dyn.FloatVal(float64(i%3-1) * 0.25)
						}
						ob.RawAll().Set(i, v)
						snap = append(snap, ob.RawAt(i))
					}
					return ob, snap
				}
				unchanged := func(ob dyn.Buf, snap []dyn.Val) bool {
					if ob.RawCap() != len(snap) {
						return false
					}
					for i, w := range snap {
						if !ob.RawAt(i).Same(w) {
							return false
						}
					}
					return true
				}
				if asSrc {
					cid := base + "/" + cv.Name() + "/src"
					bb := mk()
					ob, snap := other(cv.D)
					var ret int
					ev(cv.Name(), "conv-src", cid, d)
					if p, msg := core.Guard(func() { ret = cv.Call(bb, ob) }); p {
						c.Violate(cv.Name()+"|panic", cid, "conversion from a degenerate source panicked: "+msg, d)
					} else {
						if ret != 0 {
							c.Violate(cv.Name()+"|count", cid, fmt.Sprintf("conversion from a degenerate source returned %d", ret), d)
						}
						if !unchanged(ob, snap) {
							c.Violate(cv.Name()+"|transferred", cid, "conversion from a degenerate source changed the destination", d)
						}
						inertCheck(cv.Name(), bb)
					}
				}
				if asDst {
					cid := base + "/" + cv.Name() + "/dst"
					bb := mk()
					ob, snap := other(cv.S)
					var ret int
					ev(cv.Name(), "conv-dst", cid, d)
					if p, msg := core.Guard(func() { ret = cv.Call(ob, bb) }); p {
						c.Violate(cv.Name()+"|panic", cid, "conversion into a degenerate destination panicked: "+msg, d)
					} else {
						if ret != 0 {
							c.Violate(cv.Name()+"|count", cid, fmt.Sprintf("conversion into a degenerate destination returned %d", ret), d)
						}
						if !unchanged(ob, snap) {
							c.Violate(cv.Name()+"|transferred", cid, "conversion into a degenerate destination changed the source", d)
						}
						inertCheck(cv.Name(), bb)
					}
				}
			}
		}
	}
	if pairAll {
		c.R.Exhaustive["degenerate-grid"] = true
		c.R.FullyExhaustive = true
	}
	c.Floor("calls_conv-src", 50)
	c.Floor("calls_read", 50)
}

package props

import (
	"fmt"
	"math"
	"math/big"
	"math/bits"

	"verifharness/core"
	"verifharness/dyn"
)

func init() {
	register(&Def{
		ID:    "C08",
		Level: "exploration",
		Rule: "all 22 instantiations of FloatAsSigned / FloatAsUnsigned; float32 sources: every non-NaN bit pattern in ascending order in the thorough tier (11 destinations x 4278190082 values, segments stitched by one overlapping value), a stride sample of that order + boundary lists in the quick tier; float64 sources: values adjacent (3 neighbours each side) to +-2^k and +-1.5*2^k for k=-70..70, to +-1, 0, multiples of 127/128/255/256/32767/.../2^63/2^64, quotients next to integers and halves of the full scales, +-Inf, subnormals, and seeded random values in and far outside [-1,1]; per instantiation also a re-conversion sequence on ONE source object: a whole buffer strictly inside full scale, then samples at and beyond full scale (+-1, +-1.5, +-Inf, 1e30, -3) put in through a second view of its storage only, and back, seven conversions in all" +
			"oracle: x>=1 -> highest code, x<=-1 -> lowest code, +-0 -> zero-amplitude code, otherwise result amplitude within [ceil(p)-1, floor(p)+1] of the exact product p = x*full-scale (128-bit integer arithmetic from the float's mantissa/exponent, cross-checked against big.Rat), and results non-decreasing along the ascending enumeration; " +
			"distinct = (instantiation, input value) pairs enumerated once; every pair is non-trivial; " +
			"also: conversions into a shorter destination with spare capacity first, sources last written as a whole by another conversion and then filled through a second view",
		Assume:    []string{"NaN inputs are excluded (result unspecified)", "float->integer conversions are only observed through the library; results are those of this platform (amd64)"},
		Exhaustiv: "float32 sources in the thorough tier (every non-NaN bit pattern); float64 sources are sampled",
		Plan:      fixedPlan,
		Run:       runC08,
	})
}

// c08Interval returns the accepted amplitude interval for |x| < 1, x != 0.
func c08Interval(x float64, bitsD int) (lo, hi int64) {
	neg := x < 0
	ax := math.Abs(x)
	fs := uint64(1)<<(bitsD-1) - 1
	if neg {
		fs = uint64(1) << (bitsD - 1)
	}
	frac, exp := math.Frexp(ax)
	m := uint64(math.Ldexp(frac, 53)) // exact 53-bit integer mantissa
	k := 53 - exp                     // ax = m * 2^-k, k >= 53
	hiw, low := bits.Mul64(m, fs)
	var fl uint64
	rem := false
	switch {
	case k >= 128:
		fl = 0
		rem = hiw != 0 || low != 0
	case k >= 64:
		fl = hiw >> uint(k-64)
		rem = low != 0 || (hiw&(uint64(1)<<uint(k-64)-1)) != 0
	default:
		fl = hiw<<uint(64-k) | low>>uint(k)
		rem = low&(uint64(1)<<uint(k)-1) != 0
	}
	r := int64(0)
	if rem {
		r = 1
	}
	f := int64(fl) // |p| < 2^63
	if !neg {
		return f + r - 1, f + 1
	}
	return -f - 1, -(f + r) + 1
}

func c08IntervalBig(x float64, bitsD int) (lo, hi *big.Int) {
	fs := new(big.Int).Lsh(big.NewInt(1), uint(bitsD-1))
	if x > 0 {
		fs.Sub(fs, big.NewInt(1))
	}
	p := new(big.Rat).Mul(ratOfFloat(x), new(big.Rat).SetInt(fs))
	fl := new(big.Int).Div(p.Num(), p.Denom()) // Euclidean: floor for positive denominators
	cl := new(big.Int).Set(fl)
	if !p.IsInt() {
		cl.Add(cl, big.NewInt(1))
	}
	return cl.Sub(cl, big.NewInt(1)), fl.Add(fl, big.NewInt(1))
}

type floatTask struct {
	cv     *dyn.ConvOp
	full   bool
	lo, hi uint64
	stride uint64
}

func floatToFixed(cv *dyn.ConvOp) bool { return cv.S.Kind == dyn.KFloat && cv.D.Kind != dyn.KFloat }

func runC08(c *core.Ctx) {
	if isDigestMode(c.Mode) {
		convDigests(c, floatToFixed)
		return
	}
	var tasks []floatTask
	total := uint64(2 * f32Half)
	for _, cv := range dyn.AllConvs() {
		if !floatToFixed(cv) {
			continue
		}
		if cv.S.Bits == 32 {
			if c.Quick() {
				tasks = append(tasks, floatTask{cv: cv, full: true, lo: 0, hi: total, stride: 3989})
			} else {
				per := total/16 + 1
				for s := uint64(0); s < 16; s++ {
					tasks = append(tasks, floatTask{cv: cv, full: true, lo: s * per, hi: min((s+1)*per, total), stride: 1})
				}
			}
		}
	}
	for _, cv := range dyn.AllConvs() {
		if floatToFixed(cv) {
			tasks = append(tasks, floatTask{cv: cv})
		}
	}
	for ti, t := range tasks {
		if !c.Mine(ti) {
			continue
		}
		cv := t.cv
		name := cv.Name()
		caseID := fmt.Sprintf("%s/%d-%d", name, t.lo, t.hi)
		if !c.Want(caseID) {
			continue
		}
		dt := cv.D.TypeInfo
		b := dt.Bits
		sc := newScannerHow(cv, 1+ti%3, ti/3)
		preludeCheck(c, sc, name, caseID, math.Float64bits(0), math.Float64bits(-0.75), math.Float64bits(0.75),
			func(raw uint64) bool { return amp(dt, raw) == 0 })
		chunkNo := 0
		if ti%4 == 0 || !c.Quick() {
			if idx, long, short := sc.longCheck([]uint64{math.Float64bits(0), math.Float64bits(-0.75), math.Float64bits(0.75), math.Float64bits(1), math.Float64bits(-1), math.Float64bits(0.3330078125), math.Float64bits(2), math.Float64bits(-1e9)}); idx >= 0 {
				c.Violate(name+"|buffer-size-dependence", caseID, fmt.Sprintf("position %d of a %d-sample buffer converted in one call gives carrier %#x, the same sample converted in a %d-sample chunk gives %#x", idx, longN, long, chunkN, short),
					map[string]any{"fn": name, "samples": longN, "position": idx, "channels": sc.ch})
			}
			c.Obs("conversions_of_more_than_65536_samples_in_one_call", 1)
		}
		var prevX float64
		var prevA int64
		have, first := false, true
		viol := 0
		var count, extra, crossChecked int64
		extraPass := false
		process := func(in []uint64) {
			if viol > 30 {
				return
			}
			out := sc.conv(in)
			if sc.panicked != "" {
				if viol < 1000 {
					c.Violate(name+"|panic", caseID, "the conversion panicked: "+sc.panicked, map[string]any{"fn": name, "buffer_len": len(in), "channels": sc.ch})
				}
				viol = 1000
				return
			}
			if chunkNo++; !t.full || chunkNo%8 == 1 {
				if idx, got := sc.orderCheck(in, out); idx >= 0 {
					viol++
					c.Violate(name+"|order-dependence", caseID, fmt.Sprintf("input %v converts to amplitude %d in an ascending buffer and to %d when the buffer is reversed", math.Float64frombits(in[idx]), amp(dt, out[idx]), amp(dt, got)),
						map[string]any{"fn": name, "input": math.Float64frombits(in[idx]), "position": idx, "buffer_len": len(in), "channels": sc.ch})
				}
				c.Obs("chunks_also_converted_in_reverse_order", 1)
				if idx, got := sc.windowsCheck(in, out); idx >= 0 {
					viol++
					c.Violate(name+"|window-dependence", caseID, fmt.Sprintf("position %d converts to amplitude %d in one call and to amplitude %d when the same samples are converted in three pieces through pairs of Slice windows, last piece first", idx, amp(dt, out[idx]), amp(dt, got)),
						map[string]any{"fn": name, "position": idx, "buffer_len": len(in), "channels": sc.ch})
				}
				c.Obs("chunks_also_converted_piecewise_through_windows_last_piece_first", 1)
			}
			for i, raw := range in {
				x := math.Float64frombits(raw)
				da := amp(dt, out[i])
				overlap := first && i == 0 && t.full && t.lo > 0
				if !overlap {
					count++
					if extraPass {
						extra++ // the same value again in another block: not a new distinct case
					}
				}
				det := func() map[string]any {
					return map[string]any{"fn": name, "input": dyn.FloatVal(x), "result_code": dyn.Val{K: dt.Kind, I: int64(out[i]), U: out[i]}, "result_amplitude": da}
				}
				switch {
				case x >= 1:
					c.Obs("inputs_ge_1", 1)
					if da != maxAmp(b) {
						viol++
						cls := "clip-high"
						c.Violate(name+"|"+cls, caseID, fmt.Sprintf("input %v >= 1 became amplitude %d, highest code has amplitude %d", x, da, maxAmp(b)), det())
					}
				case x <= -1:
					c.Obs("inputs_le_minus_1", 1)
					if da != minAmp(b) {
						viol++
						c.Violate(name+"|clip-low", caseID, fmt.Sprintf("input %v <= -1 became amplitude %d, lowest code has amplitude %d", x, da, minAmp(b)), det())
					}
				case x == 0:
					c.Obs("zero_inputs", 1)
					if da != 0 {
						viol++
						c.Violate(name+"|zero", caseID, fmt.Sprintf("input %v became amplitude %d", x, da), det())
					}
				default:
					lo, hi := c08Interval(x, b)
					if da < lo || da > hi {
						viol++
						c.Violate(name+"|linear", caseID, fmt.Sprintf("input %v: result amplitude %d outside [%d,%d] (exact product x*full-scale +- 1 step)", x, da, lo, hi), det())
					}
					if !t.full || count%65537 == 0 {
						bl, bh := c08IntervalBig(x, b)
						crossChecked++
						if bl.Cmp(big.NewInt(lo)) != 0 || bh.Cmp(big.NewInt(hi)) != 0 {
							c.Inconclusive(fmt.Sprintf("oracle self-check failed for x=%v depth=%d: fast [%d,%d] big [%v,%v]", x, b, lo, hi, bl, bh))
							viol = 1000
							return
						}
					}
					c.Obs("inputs_inside", 1)
				}
				if have && da < prevA && x > prevX {
					viol++
					c.Violate(name+"|order", caseID, fmt.Sprintf("input %v -> amplitude %d but the smaller input %v -> %d", x, da, prevX, prevA), det())
				}
				if count == 5000 {
					c.Sample("conversion", map[string]any{"fn": name, "input": x, "result_amplitude": da, "previous": []any{prevX, prevA}})
				}
				prevX, prevA, have = x, da, true
			}
			first = false
		}
		buf := make([]uint64, 0, chunkN)
		if t.full {
			i := t.lo
			if i > 0 {
				i--
			}
			for i < t.hi {
				buf = buf[:0]
				for len(buf) < chunkN && i < t.hi {
					buf = append(buf, math.Float64bits(f32At(i)))
					i += t.stride
				}
				process(buf)
			}
		} else {
			list := floatList(c.Seed, c.Pick(100000, 1000000), cv.S.Bits == 32)
			// blocks that never leave [-1,1] (including exactly -1 and +1):
			// whatever is decided per block (a peak search, a fast path
			// without clipping) sees a block with nothing to clip
			var inRange []float64
			for _, f := range list {
				if f >= -1 && f <= 1 {
					inRange = append(inRange, f)
				}
			}
			inRange0 := inRange
			extraPass = true
			for _, blk := range [][]float64{{1}, {-1}, {0.5, 1, -1, 0.25, 1, -0.5}, {1, 1, 1}} {
				buf = buf[:0]
				for _, f := range blk {
					buf = append(buf, math.Float64bits(f))
				}
				have = false
				process(buf)
			}
			for len(inRange) > 0 {
				n := min(chunkN, len(inRange))
				buf = buf[:0]
				for _, f := range inRange[:n] {
					buf = append(buf, math.Float64bits(f))
				}
				have = len(buf) == chunkN && have
				process(buf)
				inRange = inRange[n:]
				c.Obs("blocks_without_any_sample_outside_full_scale", 1)
			}
			// the same source object converted again and again: a whole buffer
			// strictly inside full scale, then samples at and beyond full scale put
			// in through a second view of its storage (and back), so that nothing
			// remembered about the earlier contents may be used
			var strict []float64
			for _, f := range inRange0 {
				if f > -1 && f < 1 {
					strict = append(strict, f)
				}
			}
			if len(strict) > 0 {
				inside := make([]uint64, chunkN)
				outside := make([]uint64, chunkN)
				outs := []float64{1.5, -1.5, math.Inf(1), math.Inf(-1), 1, -1, 0.5, -0.25, 1e30, -3}
				for i := range inside {
					inside[i] = math.Float64bits(strict[(i*7)%len(strict)])
					o := outs[i%len(outs)]
					if cv.S.Bits == 32 {
						o = float64(float32(o)) // a value the source type can hold
					}
					outside[i] = math.Float64bits(o)
				}
				for _, step := range []struct {
					via int
					in  []uint64
				}{{0, inside}, {1, outside}, {1, inside}, {0, outside}, {0, inside}, {1, inside}, {1, outside}} {
					sc.fillVia = step.via
					have = false
					process(step.in)
				}
				sc.fillVia = 0
			}
			have = false
			extraPass = false
			for len(list) > 0 {
				n := min(chunkN, len(list))
				buf = buf[:0]
				for _, f := range list[:n] {
					buf = append(buf, math.Float64bits(f))
				}
				process(buf)
				list = list[n:]
			}
		}
		c.Eval(count)
		c.DistinctN(count - extra)
		c.Obs("oracle_cross_checked_against_big", crossChecked)
		kind := "list"
		if t.full {
			kind = "float32-order-stride-" + fmt.Sprint(t.stride)
		}
		c.Obs("values_"+kind, count)
		c.Obs("tasks", 1)
		c.Sample("task", map[string]any{"fn": name, "enumeration": kind, "index_range": []uint64{t.lo, t.hi}, "values": count})
	}
	flushScanObs(c)
	c.Floor("tasks", int64(len(tasks)))
	c.Floor("inputs_ge_1", 1000)
	c.Floor("inputs_le_minus_1", 1000)
	c.Floor("inputs_inside", 10000)
	c.Floor("oracle_cross_checked_against_big", 10000)
	if !c.Quick() {
		c.R.Exhaustive["float32-sources"] = true
	}
}

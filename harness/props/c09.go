package props

import (
	"fmt"
	"math"
	"math/big"
	"sort"

	"pipelined.dev/signal"
	"verifharness/core"
	"verifharness/dyn"
)

func init() {
	register(&Def{
		ID:    "C09",
		Level: "exploration",
		Rule: "all 22 instantiations of SignedAsFloat / UnsignedAsFloat and their compositions with the matching FloatAsSigned / FloatAsUnsigned; source codes in ascending amplitude: every value of 8- and 16-bit types in every tier, every value of 32-bit types in the thorough tier (boundary-dense + seeded random in the quick tier), boundary-dense + seeded random for 64-bit types; " +
			"oracle: result in [-1,1]; lowest/zero/highest code -> -1/0/1; results non-decreasing (strictly increasing for depth<=32 into float64); |r*FS - a| <= FS*(2^-(depth-1) + 2*unit roundoff of the destination) decided in float64 with a guard band and in exact rationals (big.Rat) inside the band and for 64-bit sources; round trip through the real inverse conversion exact for depth<=32 via float64 and within one step for depth<=16 via float32; " +
			"distinct = (instantiation, source code) pairs enumerated once; every pair is non-trivial; " +
			"also: one float buffer reused as destination by all source types in turn and handed on as the same object to the inverse conversion (chain)",
		Assume:    []string{"amplitude of an unsigned code is code - 2^(depth-1); full scale is 2^(depth-1)-1 for positive and 2^(depth-1) for negative amplitudes", "known finding: UnsignedAsFloat divides negative amplitudes by 2^(depth-1)-1 (see known_findings.txt)"},
		Exhaustiv: "8- and 16-bit sources always, 32-bit sources in the thorough tier; 64-bit sources are sampled",
		Plan:      fixedPlan,
		Run:       runC09,
	})
}

func fixedToFloat(cv *dyn.ConvOp) bool { return cv.S.Kind != dyn.KFloat && cv.D.Kind == dyn.KFloat }

var (
	bigOne = big.NewRat(1, 1)
)

// c09AccuracyExact decides |r*FS - a| <= FS*(2^-(b-1) + 2u) exactly.
func c09AccuracyExact(r float64, a int64, b int, f32 bool) bool {
	fs := new(big.Int).Lsh(big.NewInt(1), uint(b-1))
	if a > 0 {
		fs.Sub(fs, big.NewInt(1))
	}
	fsr := new(big.Rat).SetInt(fs)
	lhs := new(big.Rat).Mul(ratOfFloat(r), fsr)
	lhs.Sub(lhs, new(big.Rat).SetInt64(a))
	lhs.Abs(lhs)
	u2 := pow2Rat(-52)
	if f32 {
		u2 = pow2Rat(-23)
	}
	bound := new(big.Rat).Add(pow2Rat(-(b - 1)), u2)
	bound.Mul(bound, fsr)
	return lhs.Cmp(bound) <= 0
}

func runC09(c *core.Ctx) {
	if isDigestMode(c.Mode) {
		convDigests(c, func(cv *dyn.ConvOp) bool { return fixedToFloat(cv) || floatToFixed(cv) })
		return
	}
	tasks := fixedTasks(fixedToFloat, !c.Quick(), 16)
	if c.Mine(len(tasks) + 1) {
		c09Chain(c)
	}
	for ti, t := range tasks {
		if !c.Mine(ti) {
			continue
		}
		cv := t.cv
		name := cv.Name()
		caseID := fmt.Sprintf("%s/%d-%d", name, t.lo, t.hi)
		if !c.Want(caseID) {
			continue
		}
		st := cv.S.TypeInfo
		b := st.Bits
		f32 := cv.D.Bits == 32
		sc := newScannerHow(cv, 1+ti%3, ti/3)
		preludeCheck(c, sc, name, caseID, rawOfAmp(st, 0), rawOfAmp(st, minAmp(st.Bits)), rawOfAmp(st, maxAmp(st.Bits)),
			func(raw uint64) bool { return math.Float64frombits(raw) == 0 })
		chunkNo := 0
		if ti%4 == 0 || !c.Quick() {
			if idx, long, short := sc.longCheck([]uint64{rawOfAmp(st, 0), rawOfAmp(st, minAmp(st.Bits)), rawOfAmp(st, maxAmp(st.Bits)), rawOfAmp(st, 1), rawOfAmp(st, -1), rawOfAmp(st, maxAmp(st.Bits)/3)}); idx >= 0 {
				c.Violate(name+"|buffer-size-dependence", caseID, fmt.Sprintf("position %d of a %d-sample buffer converted in one call gives carrier %#x, the same sample converted in a %d-sample chunk gives %#x", idx, longN, long, chunkN, short),
					map[string]any{"fn": name, "samples": longN, "position": idx, "channels": sc.ch})
			}
			c.Obs("conversions_of_more_than_65536_samples_in_one_call", 1)
		}
		inv := inverseConv(cv)
		var back *scanner
		rtExact := b <= 32 && !f32
		rtStep := f32 && b <= 16
		if (rtExact || rtStep) && inv != nil {
			back = newScanner(inv)
		}
		strict := b <= 32 && !f32
		u2 := math.Ldexp(1, -52)
		if f32 {
			u2 = math.Ldexp(1, -23)
		}
		var prevA int64
		var prevR float64
		var prevRaw uint64
		have, first := false, true
		viol := 0
		var count, distinct, exactDecisions int64
		t.forEachChunk(c, func(in []uint64) {
			if viol > 600 {
				return
			}
			out := sc.conv(in)
			if sc.panicked != "" {
				if viol < 1000 {
					c.Violate(name+"|panic", caseID, "the conversion panicked: "+sc.panicked, map[string]any{"fn": name, "buffer_len": len(in), "channels": sc.ch})
				}
				viol = 1000
				return
			}
			if chunkNo++; t.list || chunkNo%8 == 1 {
				if idx, got := sc.orderCheck(in, out); idx >= 0 {
					viol++
					c.Violate(name+"|order-dependence", caseID, fmt.Sprintf("source amplitude %d converts to %v in an ascending buffer and to %v when the buffer is reversed", amp(st, in[idx]), math.Float64frombits(out[idx]), math.Float64frombits(got)),
						map[string]any{"fn": name, "source_amplitude": amp(st, in[idx]), "position": idx, "buffer_len": len(in), "channels": sc.ch})
				}
				c.Obs("chunks_also_converted_in_reverse_order", 1)
				if idx, got := sc.windowsCheck(in, out); idx >= 0 {
					viol++
					c.Violate(name+"|window-dependence", caseID, fmt.Sprintf("position %d converts to %v in one call and to %v when the same samples are converted in three pieces through pairs of Slice windows, last piece first", idx, math.Float64frombits(out[idx]), math.Float64frombits(got)),
						map[string]any{"fn": name, "position": idx, "buffer_len": len(in), "channels": sc.ch})
				}
				c.Obs("chunks_also_converted_piecewise_through_windows_last_piece_first", 1)
			}
			var rt []uint64
			if back != nil {
				tmp := append([]uint64(nil), out...)
				rt = back.conv(tmp)
			}
			for i, raw := range in {
				a := amp(st, raw)
				r := math.Float64frombits(out[i])
				overlap := first && i == 0 && t.full && t.lo > 0
				if !overlap {
					count++
					if !have || raw != prevRaw {
						distinct++
					}
				}
				code := dyn.Val{K: st.Kind, I: int64(raw), U: raw}
				det := func() map[string]any {
					return map[string]any{"fn": name, "source_code": code, "source_amplitude": a, "result": dyn.FloatVal(r)}
				}
				if !(r >= -1 && r <= 1) {
					viol++
					c.Violate(name+"|range", caseID, fmt.Sprintf("code %v (amplitude %d) -> %v outside [-1,1]", code, a, r), det())
				}
				switch a {
				case minAmp(b):
					c.Obs("level_lowest_checked", 1)
					if r != -1 {
						viol++
						c.Violate(name+"|level-lowest", caseID, fmt.Sprintf("lowest code -> %v", r), det())
					}
				case 0:
					c.Obs("level_zero_checked", 1)
					if r != 0 {
						viol++
						c.Violate(name+"|level-zero", caseID, fmt.Sprintf("zero-amplitude code -> %v", r), det())
					}
				case maxAmp(b):
					c.Obs("level_highest_checked", 1)
					if r != 1 {
						viol++
						c.Violate(name+"|level-highest", caseID, fmt.Sprintf("highest code -> %v", r), det())
					}
				}
				if have {
					if a == prevA && r != prevR {
						viol++
						c.Violate(name+"|position-dependence", caseID, fmt.Sprintf("the same code %v converted to %v and to %v within one buffer", code, prevR, r), det())
					} else if r < prevR {
						viol++
						c.Violate(name+"|order", caseID, fmt.Sprintf("amplitude %d -> %v but the lower amplitude %d -> %v", a, r, prevA, prevR), det())
					} else if strict && r == prevR && a == prevA+1 {
						viol++
						// keyed by the higher of the two colliding codes
						c.Violate(fmt.Sprintf("%s|collision-with-predecessor|%d", name, raw), caseID,
							fmt.Sprintf("distinct codes %d and %d (amplitudes %d, %d) both -> %v", prevRaw, raw, prevA, a, r), det())
					} else if strict && r == prevR && a != prevA {
						viol++
						c.Violate(name+"|collision", caseID, fmt.Sprintf("distinct amplitudes %d and %d both -> %v", prevA, a, r), det())
					}
				}
				// accuracy
				ok := true
				if b <= 32 {
					fs := math.Ldexp(1, b-1)
					if a > 0 {
						fs--
					}
					dd := math.Abs(r*fs - float64(a))
					bound := fs * (math.Ldexp(1, -(b-1)) + u2)
					guard := math.Ldexp(1, -20)
					switch {
					case dd <= bound-guard:
					case dd >= bound+guard:
						ok = false
					default:
						exactDecisions++
						ok = c09AccuracyExact(r, a, b, f32)
					}
				} else {
					exactDecisions++
					ok = c09AccuracyExact(r, a, b, f32)
				}
				if !ok {
					viol++
					c.Violate(name+"|accuracy", caseID, fmt.Sprintf("code %v (amplitude %d) -> %v, more than one quantisation step (+ float rounding) away from amplitude/full-scale", code, a, r), det())
				}
				// round trip
				if back != nil {
					ba := amp(st, rt[i])
					if rtExact {
						c.Obs("round_trips_exact_claim", 1)
						if rt[i] != raw {
							viol++
							kind := "roundtrip-other"
							if ba == a-1 {
								kind = "roundtrip-returns-code-minus-1"
							} else if ba == a+1 {
								kind = "roundtrip-returns-code-plus-1"
							}
							c.Violate(fmt.Sprintf("%s|%s|%d", name, kind, raw), caseID,
								fmt.Sprintf("code %d -> %v -> %s -> code %d", raw, r, inv.Name(), rt[i]), det())
						}
					} else {
						c.Obs("round_trips_one_step_claim", 1)
						if ba < a-1 || ba > a+1 {
							viol++
							c.Violate(name+"|roundtrip-float32", caseID, fmt.Sprintf("code %d (amplitude %d) -> %v -> %s -> amplitude %d (more than one step)", raw, a, r, inv.Name(), ba), det())
						}
					}
				}
				if count == 200 {
					c.Sample("conversion", map[string]any{"fn": name, "source_amplitude": a, "result": r, "previous": []any{prevA, prevR}})
				}
				prevA, prevR, prevRaw, have = a, r, raw, true
			}
			first = false
		})
		c.Eval(count)
		if t.rep > 1 {
			distinct = 0
			c.Obs("values_in_long_buffers_of_repeated_codes", count)
		}
		c.DistinctN(distinct)
		c.Obs("accuracy_decided_exactly_in_big_rat", exactDecisions)
		kind := "list"
		if t.full {
			kind = fmt.Sprintf("full%d", st.Bits)
		}
		c.Obs("values_"+kind, count)
		c.Obs("tasks", 1)
		c.Sample("task", map[string]any{"fn": name, "enumeration": kind, "index_range": []uint64{t.lo, t.hi}, "values": count})
	}
	flushScanObs(c)
	c.Floor("tasks", int64(len(tasks)))
	c.Floor("level_zero_checked", 22)
	c.Floor("level_lowest_checked", 22)
	c.Floor("level_highest_checked", 22)
	c.Floor("round_trips_exact_claim", 100000)
	c.Floor("chain_round_trips_through_the_same_buffer_object", 1000)
	c.R.Exhaustive["8-and-16-bit-sources"] = true
	if !c.Quick() {
		c.R.Exhaustive["32-bit-sources"] = true
	}
}

// c09Chain reuses ONE floating-point buffer as the destination of conversions
// from every fixed-point source type in turn (ascending bit depth, then
// descending, with shorter and longer sources alternating) and hands that very
// buffer object - not a copy of its samples - to the matching floating-to-fixed
// conversion. What the property says about a conversion holds whatever the
// destination was used for before.
func c09Chain(c *core.Ctx) {
	const n = 2048
	for _, fname := range []string{"float64", "float32"} {
		var convs []*dyn.ConvOp
		for _, cv := range dyn.Convs {
			if fixedToFloat(cv) && cv.D.Name == fname {
				convs = append(convs, cv)
			}
		}
		sort.SliceStable(convs, func(i, j int) bool { return convs[i].S.Bits < convs[j].S.Bits })
		order := append([]*dyn.ConvOp(nil), convs...)
		for i := len(convs) - 1; i >= 0; i-- {
			order = append(order, convs[i])
		}
		if len(order) == 0 {
			continue
		}
		f32 := fname == "float32"
		F := order[0].D.Alloc(signal.Allocator{Channels: 1, Length: n, Capacity: n})
		out := make([]uint64, n)
		rt := make([]uint64, n)
		for step, cv := range order {
			st := cv.S.TypeInfo
			b := st.Bits
			name := cv.Name()
			caseID := fmt.Sprintf("chain/%s/%d", fname, step)
			amps := ampList(b, uint64(step)+c.Seed, 600)
			if len(amps) > n {
				amps = amps[:n]
			}
			if step%2 == 0 {
				// a shorter source first, the longer one of the next step after it;
				// the three reference levels stay in
				short := append([]int64(nil), amps[:len(amps)/3]...)
				amps = mergeSorted(short, []int64{minAmp(b), 0, maxAmp(b)})
			}
			in := make([]uint64, len(amps))
			for i, a := range amps {
				in[i] = rawOfAmp(st, a)
			}
			src := cv.S.Alloc(signal.Allocator{Channels: 1, Length: len(in), Capacity: len(in)})
			cv.S.Fill(src, in)
			d := map[string]any{"fn": name, "float_buffer": "one " + fname + " buffer reused by every step", "step": step, "samples": len(in)}
			if p, msg := core.Guard(func() { cv.Call(src, F) }); p {
				c.Violate(name+"|panic", caseID, "the conversion into a reused destination panicked: "+msg, d)
				return
			}
			if F.Len() != n {
				c.Violate(name+"|panic", caseID, fmt.Sprintf("(no panic, but) the conversion changed the length of its destination: %d -> %d samples", n, F.Len()), d)
				return
			}
			cv.D.Drain(F, out)
			inv := inverseConv(cv)
			rtExact := b <= 32 && !f32
			rtStep := f32 && b <= 16
			var back dyn.Buf
			if inv != nil && (rtExact || rtStep) {
				back = cv.S.Alloc(signal.Allocator{Channels: 1, Length: len(in), Capacity: len(in)})
				if p, msg := core.Guard(func() { inv.Call(F, back) }); p {
					c.Violate(name+"|panic", caseID, inv.Name()+" from the reused buffer panicked: "+msg, d)
					return
				}
				cv.S.Drain(back, rt[:len(in)])
			}
			c.Eval(int64(len(in)))
			c.Obs("chain_conversions_into_one_reused_float_buffer", 1)
			var prevR float64
			var prevA int64
			for i, raw := range in {
				a := amp(st, raw)
				r := math.Float64frombits(out[i])
				dd := map[string]any{"fn": name, "step": step, "source_amplitude": a, "result": dyn.FloatVal(r), "float_buffer": "reused"}
				if !(r >= -1 && r <= 1) {
					c.Violate(name+"|range", caseID, fmt.Sprintf("amplitude %d -> %v outside [-1,1] (destination reused from earlier conversions)", a, r), dd)
				}
				if (a == minAmp(b) && r != -1) || (a == 0 && r != 0) || (a == maxAmp(b) && r != 1) {
					c.Violate(name+"|level-reused-destination", caseID, fmt.Sprintf("amplitude %d -> %v in a destination reused from earlier conversions", a, r), dd)
				}
				if i > 0 && a > prevA && r < prevR {
					c.Violate(name+"|order", caseID, fmt.Sprintf("amplitude %d -> %v but the lower amplitude %d -> %v (destination reused)", a, r, prevA, prevR), dd)
				}
				if !c09AccuracyExact(r, a, b, f32) {
					c.Violate(name+"|accuracy", caseID, fmt.Sprintf("amplitude %d -> %v, more than one quantisation step away (destination reused)", a, r), dd)
				}
				if back != nil {
					ba := amp(st, rt[i])
					c.Obs("chain_round_trips_through_the_same_buffer_object", 1)
					if rtExact && rt[i] != raw {
						// the same classes (and inputs) as in the scan above
						kind := "roundtrip-other"
						if ba == a-1 {
							kind = "roundtrip-returns-code-minus-1"
						} else if ba == a+1 {
							kind = "roundtrip-returns-code-plus-1"
						}
						c.Violate(fmt.Sprintf("%s|%s|%d", name, kind, raw), caseID, fmt.Sprintf("code %d -> %v -> %s -> code %d, the float buffer (used by %d earlier conversions) handed on as it is", raw, r, inv.Name(), rt[i], step), dd)
					} else if rtStep && (ba < a-1 || ba > a+1) {
						c.Violate(name+"|roundtrip-float32", caseID, fmt.Sprintf("amplitude %d -> %v -> %s -> amplitude %d, the float buffer (used by %d earlier conversions) handed on as it is", a, r, inv.Name(), ba, step), dd)
					}
				}
				prevA, prevR = a, r
			}
		}
	}
}

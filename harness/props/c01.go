package props

import (
	"fmt"
	"math"

	"pipelined.dev/signal"
	"verifharness/core"
	"verifharness/dyn"
	"verifharness/mon"
)

func init() {
	register(&Def{
		ID:    "C01",
		Level: "exploration",
		Rule: "all 169 (source element type, destination element type) pairs over the built-in types plus 7 pairs over named element types x {Write, Read, WriteStriped, ReadStriped, write-then-read round trips across the interleaved and striped forms} x window shapes (channel counts 1..8,13,64; parent 0..40 frames; window at start/interior/end/empty, with and without spare capacity; non-frame-aligned lengths for the interleaved forms) x input lengths {0,1,n-1,n,n+1,2n+3} / per-channel slices {nil, empty, uneven, over-long}; values are boundary-dense + seeded integers exactly representable in both types (fractions and +-Inf for float<->float); " +
			"each call runs against a canary arena re-read over the whole parent capacity through the hook, with sentinel-filled caller slices; distinct = distinct (function, pair, shape, input lengths) tuples; non-trivial = at least one sample is transferred; " +
			"also: striped writes whose rows are prefixes of one backing array, 65..257 channels, integers beyond 2^63 common to 64-bit unsigned and float types, the sign of zero between float types",
		Assume: []string{"striped forms only on frame-aligned buffers (as the property states)", "positions computed by the oracle as C*i+c, counts as integer ceil(n/C)"},
		Plan:   func(tier string) []Batch { return append(split("pairs", 13, 1200), digestBatches()...) },
		Run:    runC01,
	})
}

func maxPosMag(t *dyn.TypeInfo) uint64 {
	switch t.Kind {
	case dyn.KInt:
		return uint64(t.MaxI())
	case dyn.KUint:
		return t.MaxU()
	}
	if t.Bits == 32 {
		return 1 << 24
	}
	return 1 << 53
}

func maxNegMag(t *dyn.TypeInfo) uint64 {
	switch t.Kind {
	case dyn.KInt:
		return uint64(1) << (t.Bits - 1)
	case dyn.KUint:
		return 0
	}
	return maxPosMag(t)
}

// commonVal draws an integer exactly representable in both types and returns
// it as a value of type a.
func commonVal(r *core.Rand, a, b *dyn.TypeInfo) dyn.Val {
	neg := r.Bool()
	lim := min(maxPosMag(a), maxPosMag(b))
	if neg {
		lim = min(maxNegMag(a), maxNegMag(b))
		if lim == 0 {
			neg = false
			lim = min(maxPosMag(a), maxPosMag(b))
		}
	}
	if u, f := a, b; !neg && ((u.Kind == dyn.KUint && u.Bits == 64 && f.Kind == dyn.KFloat) || (b.Kind == dyn.KUint && b.Bits == 64 && a.Kind == dyn.KFloat)) && r.Chance(1, 4) {
		// a 64-bit unsigned type against a float: integers far above 2^53 (up to
		// and beyond 2^63) with at most 14 significant bits are exact in both
		k := uint(40 + r.Intn(24))
		big := uint64(1)<<k + uint64(r.Intn(1<<12))<<(k-13)
		if a.Kind == dyn.KUint {
			return dyn.UintVal(big)
		}
		return dyn.FloatVal(float64(big))
	}
	var mag uint64
	switch r.Intn(6) {
	case 0:
		x := uint64(r.Intn(3))
		if x > lim {
			x = lim
		}
		mag = lim - x
	case 1:
		mag = uint64(r.Intn(4))
	case 2:
		mag = uint64(1) << uint(r.Intn(64))
		mag += uint64(r.Intn(3)) - 1
	default:
		mag = r.Uint64() >> uint(r.Intn(64))
	}
	if mag > lim { // lim < MaxUint64 here
		mag %= lim + 1
	}
	if a.Kind == dyn.KFloat && b.Kind == dyn.KFloat && r.Chance(1, 3) {
		// fractions exactly representable in float32, and infinities
		if r.Chance(1, 10) {
			if neg {
				return dyn.FloatVal(math.Inf(-1))
			}
			return dyn.FloatVal(math.Inf(1))
		}
		f := float64(mag%4096) + float64(r.Intn(256))/256
		if neg {
			f = -f
		}
		return dyn.FloatVal(f)
	}
	switch a.Kind {
	case dyn.KInt:
		if neg {
			return dyn.IntVal(int64(-mag))
		}
		return dyn.IntVal(int64(mag))
	case dyn.KUint:
		return dyn.UintVal(mag)
	}
	if neg && (mag != 0 || b.Kind == dyn.KFloat) { // -0 is representable only in floats
		return dyn.FloatVal(-float64(mag))
	}
	return dyn.FloatVal(float64(mag))
}

type c01shape struct{ ch, k, s, e, extra int }

func c01Shapes(c *core.Ctx, r *core.Rand, n int) []c01shape {
	shapes := []c01shape{{1, 1, 0, 1, 0}, {2, 3, 0, 3, 0}, {3, 5, 1, 4, 0}, {2, 4, 1, 2, 1}, {3, 4, 0, 2, 2}, {1, 0, 0, 0, 0}, {4, 3, 3, 3, 0}, {2, 2, 0, 0, 1},
		{2, 300, 0, 300, 0}, {3, 420, 20, 400, 1}} // more than 256 frames
	chans := []int{1, 2, 3, 4, 5, 6, 7, 8, 13, 64, 65, 70, 130, 257}
	for i := 0; i < n; i++ {
		ch := chans[r.Intn(len(chans))]
		k := r.Range(0, 40)
		if ch >= 64 {
			k = r.Range(0, 6)
		} else if i%9 == 8 {
			k = r.Range(257, 700) // more than 256 frames: paths that depend on the amount of data
			ch = 1 + ch%3
		}
		s := r.Range(0, k)
		e := r.Range(s, k)
		switch r.Intn(5) {
		case 0:
			s, e = 0, k
		case 1:
			s = 0
		case 2:
			e = k
		}
		extra := 0
		if r.Chance(1, 3) {
			extra = r.Range(1, ch)
		}
		shapes = append(shapes, c01shape{ch, k, s, e, extra})
	}
	return shapes
}

// c01Digests pushes one fixed input vector per transfer pair through Write
// and both readers, in an order that depends on the child process; the driver
// requires the per-pair digests of the processes to agree.
func c01Digests(c *core.Ctx) {
	all := dyn.AllPairs()
	order := make([]int, len(all))
	for i := range order {
		order[i] = i
	}
	switch c.Mode {
	case "digest-reverse":
		for i, j := 0, len(order)-1; i < j; i, j = i+1, j-1 {
			order[i], order[j] = order[j], order[i]
		}
	case "digest-interleaved":
		for i := 0; i+1 < len(order); i += 2 {
			order[i], order[i+1] = order[i+1], order[i]
		}
	}
	for _, pi := range order {
		p := all[pi]
		name := "[" + p.A.Name + "," + p.B.Name + "]"
		r := core.NewRand(4711, core.HashStr(name))
		const ch, frames = 3, 110
		src := p.A.MakeSl(ch * frames)
		for i := 0; i < src.Len(); i++ {
			src.Set(i, commonVal(r, p.A.TypeInfo, p.B.TypeInfo))
		}
		buf := p.B.Alloc(signal.Allocator{Channels: ch, Length: frames, Capacity: frames})
		h := core.NewHash()
		pn, msg := core.Guard(func() {
			h.Int(p.Write(src, buf))
			for i := 0; i < buf.Len(); i++ {
				h.U64(buf.Sample(i).Bits())
			}
			if back := reversePair(p.A, p.B); back != nil {
				out := p.A.MakeSl(ch * frames)
				h.Int(back.Read(buf, out))
				lens := []int{frames, frames, frames}
				ss := p.A.MakeSS(lens)
				h.Int(back.ReadStriped(buf, ss))
				for i := 0; i < out.Len(); i++ {
					h.U64(out.Get(i).Bits())
					h.U64(ss.At(i % ch).Get(i / ch).Bits())
				}
			}
		})
		if pn {
			c.Violate("transfer"+name+"|panic", "digest/"+name, "transfer panicked: "+msg, nil)
			continue
		}
		c.Digest("transfer"+name, fmt.Sprintf("%016x", h.Sum()))
		c.Eval(1)
		c.Distinct(core.NewHash().Str(c.Mode).Str(name).Sum())
		c.Obs("digest_transfers", 1)
	}
}

func runC01(c *core.Ctx) {
	if isDigestMode(c.Mode) {
		c01Digests(c)
		return
	}
	nb := dyn.NBuiltin
	pi := 0
	for ai := 0; ai < nb; ai++ {
		for bi := 0; bi < nb; bi++ {
			pi++
			if !c.Mine(pi) {
				continue
			}
			p := dyn.Pairs[ai][bi]
			r := c.Rand(uint64(pi))
			shapes := c01Shapes(c, r, c.Pick(8, 2500))
			for si, sh := range shapes {
				caseID := fmt.Sprintf("%s-%s/s%d", p.A.Name, p.B.Name, si)
				if !c.Want(caseID) {
					continue
				}
				c01Case(c, p, sh, r, caseID)
			}
			c01Recycled(c, p, r)
			c.Obs("pairs_executed", 1)
		}
	}
	for xi, p := range dyn.ExtraPairs {
		pi++
		if !c.Mine(pi) {
			continue
		}
		r := c.Rand(uint64(pi))
		for si, sh := range c01Shapes(c, r, c.Pick(8, 1000)) {
			caseID := fmt.Sprintf("x%d-%s-%s/s%d", xi, p.A.Name, p.B.Name, si)
			if c.Want(caseID) {
				c01Case(c, p, sh, r, caseID)
			}
		}
		c.Obs("pairs_executed", 1)
		c.Obs("named_type_pairs_executed", 1)
	}
	c.Floor("pairs_executed", 169+int64(len(dyn.ExtraPairs)))
	c.Floor("partial_last_frame_counts", 20)
	c.Floor("input_longer_than_buffer", 100)
	c.Floor("input_shorter_than_buffer", 100)
	c.Floor("striped_zero_filled_cells", 100)
}

func inputLens(n int) []int {
	set := map[int]bool{}
	var out []int
	for _, l := range []int{-1, 0, 1, n - 1, n, n + 1, 2*n + 3} { // -1: nil slice
		if l >= -1 && !set[l] {
			set[l] = true
			out = append(out, l)
		}
	}
	return out
}

func c01Case(c *core.Ctx, p *dyn.PairOps, sh c01shape, r *core.Rand, caseID string) {
	A, B := p.A, p.B
	pairName := "[" + A.Name + "," + B.Name + "]"
	shapeD := map[string]any{"channels": sh.ch, "parent_frames": sh.k, "window": []int{sh.s, sh.e}, "extra_samples": sh.extra}
	sigBase := core.NewHash().Str(A.Name).Str(B.Name).Int(sh.ch).Int(sh.k).Int(sh.s).Int(sh.e).Int(sh.extra).Sum()

	// ---------------- Write: []A -> Buffer[B]
	{
		probe := mon.NewArena(B, sh.ch, sh.k, 1).Window(sh.s, sh.e, sh.extra, 1)
		winLen := probe.B.Len()
		for _, il := range inputLens(winLen) {
			a := mon.NewArena(B, sh.ch, sh.k, il)
			w := a.Window(sh.s, sh.e, sh.extra, il)
			src := mon.NewSl(A, il, func(i int) dyn.Val { return commonVal(r, A.TypeInfo, B.TypeInfo) })
			before := mon.ShapeOf(w.B)
			n := min(winLen, max(il, 0))
			d := map[string]any{"fn": "Write" + pairName, "shape": shapeD, "input_len": il, "buffer_len": winLen}
			c.Eval(1)
			if n > 0 {
				c.Distinct(core.NewHash().U64(sigBase).Str("W").Int(il).Sum())
			}
			var got int
			if pn, msg := core.Guard(func() { got = p.Write(src.S, w.B) }); pn {
				c.Violate("Write"+pairName+"|panic", caseID, "Write panicked: "+msg, d)
				continue
			}
			for i := 0; i < n; i++ {
				// expected: the same number in the buffer's type
				w.Expect(i, w.B.Sample(i)) // provisional; numeric equality checked below
				if !c01Eq(w.B.Sample(i), src.Want[i]) {
					c.Violate("Write"+pairName+"|value", caseID, fmt.Sprintf("position %d holds %v after writing %v", i, w.B.Sample(i), src.Want[i]), d)
					break
				}
			}
			c01Common(c, "Write"+pairName, caseID, d, a, w, before, got, mon.CeilDiv(n, sh.ch), src.Verify("input"))
			c01Lens(c, il, winLen, n, sh.ch)
			c.Sample("write", d)
		}
	}
	// ---------------- Read: Buffer[A] -> []B
	{
		for _, il := range inputLens(mon.NewArena(A, sh.ch, sh.k, 1).Window(sh.s, sh.e, sh.extra, 1).B.Len()) {
			a := mon.NewArena(A, sh.ch, sh.k, il+7)
			w := a.Window(sh.s, sh.e, sh.extra, il)
			winLen := w.B.Len()
			// put transferable values into the window (through the hook)
			for i := 0; i < winLen; i++ {
				v := commonVal(r, A.TypeInfo, B.TypeInfo)
				w.B.RawAll().Set(i, v)
				w.Expect(i, w.B.RawAt(i))
			}
			dst := mon.NewSl(B, il, func(i int) dyn.Val { return mon.Canary(B.TypeInfo, i, 99) })
			var hiddenAll dyn.Sl
			if il >= 0 && il%2 == 1 {
				// the output slice is the front of a longer array (spare capacity)
				vis, all := B.MakeSlHidden(il, 5)
				for i := 0; i < all.Len(); i++ {
					all.Set(i, mon.Canary(B.TypeInfo, i, 99))
				}
				dst = &mon.SlShadow{S: vis}
				for i := 0; i < il; i++ {
					dst.Want = append(dst.Want, vis.Get(i))
				}
				hiddenAll = all
			}
			before := mon.ShapeOf(w.B)
			n := min(winLen, max(il, 0))
			d := map[string]any{"fn": "Read" + pairName, "shape": shapeD, "output_len": il, "buffer_len": winLen}
			c.Eval(1)
			if n > 0 {
				c.Distinct(core.NewHash().U64(sigBase).Str("R").Int(il).Sum())
			}
			var got int
			if pn, msg := core.Guard(func() { got = p.Read(w.B, dst.S) }); pn {
				c.Violate("Read"+pairName+"|panic", caseID, "Read panicked: "+msg, d)
				continue
			}
			for i := 0; i < n; i++ {
				if !c01Eq(dst.S.Get(i), a.Shadow[w.Off+i]) {
					c.Violate("Read"+pairName+"|value", caseID, fmt.Sprintf("output[%d]=%v, buffer position %d holds %v", i, dst.S.Get(i), i, a.Shadow[w.Off+i]), d)
					break
				}
				dst.Want[i] = dst.S.Get(i)
			}
			outProblems := dst.Verify("output beyond the part read")
			if hiddenAll != nil {
				for i := il; i < hiddenAll.Len(); i++ {
					if !hiddenAll.Get(i).Same(mon.Canary(B.TypeInfo, i, 99)) && !c01Eq(hiddenAll.Get(i), mon.Canary(B.TypeInfo, i, 99)) {
						outProblems = append(outProblems, mon.Problem{Kind: "caller-slice", Msg: fmt.Sprintf("element %d behind the end of the output slice (its spare capacity) was written", i)})
						break
					}
				}
				c.Obs("reads_into_slices_with_spare_capacity", 1)
			}
			c01Common(c, "Read"+pairName, caseID, d, a, w, before, got, mon.CeilDiv(n, sh.ch), outProblems)
			c01Lens(c, il, winLen, n, sh.ch)
		}
	}
	if sh.extra != 0 {
		return // striped forms: frame-aligned buffers only
	}
	length := sh.e - sh.s
	lensVariants := func() [][]int {
		var vs [][]int
		mk := func(f func(ci int) int) {
			l := make([]int, sh.ch)
			for ci := range l {
				l[ci] = f(ci)
			}
			vs = append(vs, l)
		}
		mk(func(int) int { return length })
		mk(func(ci int) int { return length + ci%3 - 1 })
		mk(func(ci int) int {
			if ci%2 == 0 {
				return -1 // nil
			}
			return length / 2
		})
		mk(func(ci int) int { return []int{0, 2*length + 3, 1}[ci%3] })
		mk(func(int) int { return -1 })
		mk(func(ci int) int { return r.Range(0, length+2) })
		mk(func(ci int) int { // nil channels next to channels longer than the buffer
			if ci%3 == 0 {
				return -1
			}
			return 2*length + 3
		})
		mk(func(ci int) int {
			if ci%2 == 1 {
				return -1
			}
			return length + 1 + ci
		})
		for _, v := range vs {
			for i := range v {
				if v[i] < -1 {
					v[i] = -1
				}
			}
		}
		return vs
	}
	// ---------------- WriteStriped: [][]A -> Buffer[B]
	for vi, lens := range lensVariants() {
		a := mon.NewArena(B, sh.ch, sh.k, vi+3)
		w := a.Window(sh.s, sh.e, 0, 0)
		// each row is the front of a longer array whose tail holds non-zero data
		ss, ssFull := A.MakeSSRowHidden(lens, 4)
		var want [][]dyn.Val
		for ci := range lens {
			var row []dyn.Val
			for i := 0; i < lens[ci]; i++ {
				ss.At(ci).Set(i, commonVal(r, A.TypeInfo, B.TypeInfo))
				row = append(row, ss.At(ci).Get(i))
			}
			for i := max(lens[ci], 0); lens[ci] >= 0 && i < ssFull.At(ci).Len(); i++ {
				ssFull.At(ci).Set(i, A.FromInt(int64(7+i%5))) // behind the end of the row
			}
			want = append(want, row)
		}
		longest := 0
		for _, l := range lens {
			longest = max(longest, l)
		}
		wr := min(longest, length)
		before := mon.ShapeOf(w.B)
		d := map[string]any{"fn": "WriteStriped" + pairName, "shape": shapeD, "channel_lens(-1=nil)": lens, "buffer_frames": length}
		c.Eval(1)
		if wr > 0 {
			c.Distinct(core.NewHash().U64(sigBase).Str("WS").Int(vi).Str(fmt.Sprint(lens)).Sum())
		}
		var got int
		if pn, msg := core.Guard(func() { got = p.WriteStriped(ss, w.B) }); pn {
			c.Violate("WriteStriped"+pairName+"|panic", caseID, "WriteStriped panicked: "+msg, d)
			continue
		}
		bad := false
		for ci := 0; ci < sh.ch && !bad; ci++ {
			for i := 0; i < wr; i++ {
				pos := sh.ch*i + ci
				cell := w.B.RawAt(pos)
				if i < lens[ci] {
					if !c01Eq(cell, want[ci][i]) {
						c.Violate("WriteStriped"+pairName+"|value", caseID, fmt.Sprintf("channel %d sample %d (position %d) holds %v after writing %v", ci, i, pos, cell, want[ci][i]), d)
						bad = true
						break
					}
				} else {
					c.Obs("striped_zero_filled_cells", 1)
					if !cell.IsZero() {
						c.Violate("WriteStriped"+pairName+"|zero-fill", caseID, fmt.Sprintf("channel %d sample %d (position %d) holds %v, must be zero-filled (channel has %d samples, longest %d)", ci, i, pos, cell, lens[ci], longest), d)
						bad = true
						break
					}
				}
				w.Expect(pos, cell)
			}
		}
		var sp []mon.Problem
		if msg := rowHeadersChanged(ss, lens); msg != "" {
			c.Violate("WriteStriped"+pairName+"|caller-rows", caseID, msg, d)
			continue
		}
		for ci := range lens {
			for i := 0; i < lens[ci]; i++ {
				if !ss.At(ci).Get(i).Same(want[ci][i]) {
					sp = append(sp, mon.Problem{Kind: "caller-slice", Msg: fmt.Sprintf("input[%d][%d] changed", ci, i)})
				}
			}
		}
		// the elements behind the end of every row (its spare capacity) belong
		// to the caller and stay as they were
		for ci := range lens {
			for i := max(lens[ci], 0); lens[ci] >= 0 && i < ssFull.At(ci).Len(); i++ {
				if got, want := ssFull.At(ci).Get(i), A.FromInt(int64(7+i%5)); !got.Same(want) && !c01Eq(got, want) {
					sp = append(sp, mon.Problem{Kind: "caller-slice", Msg: fmt.Sprintf("the element %d behind the end of input row %d (length %d, in its spare capacity) changed from %v to %v", i, ci, lens[ci], want, got)})
					break
				}
			}
		}
		c01Common(c, "WriteStriped"+pairName, caseID, d, a, w, before, got, wr, sp)
		c.Sample("writestriped", d)
	}
	// ---------------- WriteStriped with rows that are prefixes of ONE array
	if sh.ch >= 2 && length >= 2 {
		lens := make([]int, sh.ch)
		for ci := range lens {
			lens[ci] = []int{length / 2, length, max(length-3, 0), length + 1}[ci%4]
		}
		a := mon.NewArena(B, sh.ch, sh.k, 11)
		w := a.Window(sh.s, sh.e, 0, 0)
		ss, arr := A.MakeSSShared(lens, 4)
		for i := 0; i < arr.Len(); i++ {
			arr.Set(i, commonVal(r, A.TypeInfo, B.TypeInfo))
		}
		var orig []dyn.Val
		for i := 0; i < arr.Len(); i++ {
			orig = append(orig, arr.Get(i))
		}
		wr := min(length+1, length)
		before := mon.ShapeOf(w.B)
		d := map[string]any{"fn": "WriteStriped" + pairName, "shape": shapeD, "channel_lens": lens, "buffer_frames": length, "rows": "prefixes of one backing array"}
		c.Eval(1)
		c.Obs("striped_writes_with_rows_that_share_one_backing_array", 1)
		var got int
		if pn, msg := core.Guard(func() { got = p.WriteStriped(ss, w.B) }); pn {
			c.Violate("WriteStriped"+pairName+"|panic", caseID, "WriteStriped (rows sharing one backing array) panicked: "+msg, d)
		} else {
			bad := false
			for ci := 0; ci < sh.ch && !bad; ci++ {
				for i := 0; i < wr; i++ {
					pos := sh.ch*i + ci
					cell := w.B.RawAt(pos)
					if i < lens[ci] && !c01Eq(cell, orig[i]) {
						c.Violate("WriteStriped"+pairName+"|value", caseID, fmt.Sprintf("rows are prefixes of one array: channel %d sample %d (position %d) holds %v after writing %v", ci, i, pos, cell, orig[i]), d)
						bad = true
						break
					}
					if i >= lens[ci] && !cell.IsZero() {
						c.Violate("WriteStriped"+pairName+"|zero-fill", caseID, fmt.Sprintf("rows are prefixes of one array: channel %d sample %d (position %d) holds %v, must be zero-filled (channel has %d samples)", ci, i, pos, cell, lens[ci]), d)
						bad = true
						break
					}
					w.Expect(pos, cell)
				}
			}
			var sp []mon.Problem
			for i := range orig {
				if !arr.Get(i).Same(orig[i]) {
					sp = append(sp, mon.Problem{Kind: "caller-slice", Msg: fmt.Sprintf("element %d of the array the input rows share changed", i)})
					break
				}
			}
			if !bad {
				c01Common(c, "WriteStriped"+pairName, caseID, d, a, w, before, got, wr, sp)
			}
		}
	}
	// ---------------- ReadStriped: Buffer[A] -> [][]B
	for vi, lens := range lensVariants() {
		a := mon.NewArena(A, sh.ch, sh.k, vi+5)
		w := a.Window(sh.s, sh.e, 0, 0)
		for i := 0; i < w.B.Len(); i++ {
			w.B.RawAll().Set(i, commonVal(r, A.TypeInfo, B.TypeInfo))
			w.Expect(i, w.B.RawAt(i))
		}
		// the outer slice has spare capacity with two more rows behind it
		ss, ssAll := B.MakeSSHidden(lens, []int{4, 4})
		var sent [][]dyn.Val
		for ci := 0; ci < ssAll.N(); ci++ {
			var row []dyn.Val
			for i := 0; i < ssAll.At(ci).Len(); i++ {
				ssAll.At(ci).Set(i, mon.Canary(B.TypeInfo, i, 40+ci))
				row = append(row, ssAll.At(ci).Get(i))
			}
			sent = append(sent, row)
		}
		wantRet := 0
		for _, l := range lens {
			wantRet = max(wantRet, min(max(l, 0), length))
		}
		before := mon.ShapeOf(w.B)
		d := map[string]any{"fn": "ReadStriped" + pairName, "shape": shapeD, "channel_lens(-1=nil)": lens, "buffer_frames": length}
		c.Eval(1)
		if wantRet > 0 {
			c.Distinct(core.NewHash().U64(sigBase).Str("RS").Int(vi).Str(fmt.Sprint(lens)).Sum())
		}
		var got int
		if pn, msg := core.Guard(func() { got = p.ReadStriped(w.B, ss) }); pn {
			c.Violate("ReadStriped"+pairName+"|panic", caseID, "ReadStriped panicked: "+msg, d)
			continue
		}
		var sp []mon.Problem
		if msg := rowHeadersChanged(ss, lens); msg != "" {
			c.Violate("ReadStriped"+pairName+"|caller-rows", caseID, msg, d)
			continue
		}
		for ci := range lens {
			nread := min(max(lens[ci], 0), length)
			for i := 0; i < lens[ci]; i++ {
				g := ss.At(ci).Get(i)
				if i < nread {
					if !c01Eq(g, a.Shadow[w.Off+sh.ch*i+ci]) {
						c.Violate("ReadStriped"+pairName+"|value", caseID, fmt.Sprintf("output[%d][%d]=%v, buffer sample (channel %d, index %d) is %v", ci, i, g, ci, i, a.Shadow[w.Off+sh.ch*i+ci]), d)
						sp = nil
						goto doneRS
					}
				} else if !g.Same(sent[ci][i]) {
					sp = append(sp, mon.Problem{Kind: "caller-slice", Msg: fmt.Sprintf("output[%d][%d] beyond the part read changed from %v to %v", ci, i, sent[ci][i], g)})
				}
			}
		}
		for ci := len(lens); ci < ssAll.N(); ci++ { // rows beyond the slice that was passed
			for i := 0; i < ssAll.At(ci).Len(); i++ {
				if !ssAll.At(ci).Get(i).Same(sent[ci][i]) {
					sp = append(sp, mon.Problem{Kind: "caller-slice", Msg: fmt.Sprintf("row %d beyond the %d slices passed (spare capacity of the outer slice) was written", ci, len(lens))})
					break
				}
			}
		}
	doneRS:
		c01Common(c, "ReadStriped"+pairName, caseID, d, a, w, before, got, wantRet, sp)
	}
	// ---------------- round trips across the forms (A -> B -> A)
	back := reversePair(A, B)
	if length > 0 && back != nil {
		a := mon.NewArena(B, sh.ch, sh.k, 77)
		w := a.Window(sh.s, sh.e, 0, 0)
		n := w.B.Len()
		src := mon.NewSl(A, n, func(i int) dyn.Val { return commonVal(r, A.TypeInfo, B.TypeInfo) })
		d := map[string]any{"fn": "roundtrip" + pairName, "shape": shapeD}
		c.Eval(2)
		c.Distinct(core.NewHash().U64(sigBase).Str("RT").Sum())
		pn, msg := core.Guard(func() {
			p.Write(src.S, w.B)
			lens := make([]int, sh.ch)
			for i := range lens {
				lens[i] = length
			}
			out := A.MakeSS(lens)
			back.ReadStriped(w.B, out)
			for i := 0; i < n; i++ {
				if g := out.At(i % sh.ch).Get(i / sh.ch); !c01Eq(g, src.Want[i]) {
					c.Violate("roundtrip"+pairName+"|write-readstriped", caseID, fmt.Sprintf("wrote %v at interleaved position %d, striped reader returned %v for channel %d index %d", src.Want[i], i, g, i%sh.ch, i/sh.ch), d)
					break
				}
			}
			// striped write of the same data, interleaved read
			in := A.MakeSS(lens)
			for i := 0; i < n; i++ {
				in.At(i%sh.ch).Set(i/sh.ch, src.Want[i])
			}
			a2 := mon.NewArena(B, sh.ch, sh.k, 78)
			w2 := a2.Window(sh.s, sh.e, 0, 0)
			p.WriteStriped(in, w2.B)
			flat := A.MakeSl(n)
			back.Read(w2.B, flat)
			for i := 0; i < n; i++ {
				if g := flat.Get(i); !c01Eq(g, src.Want[i]) {
					c.Violate("roundtrip"+pairName+"|writestriped-read", caseID, fmt.Sprintf("wrote %v for channel %d index %d, interleaved reader returned %v at position %d", src.Want[i], i%sh.ch, i/sh.ch, g, i), d)
					break
				}
			}
		})
		if pn {
			c.Violate("roundtrip"+pairName+"|panic", caseID, "round trip panicked: "+msg, d)
		}
		c.Obs("round_trips", 2)
	}
}

// c01Recycled runs the four transfer functions on a buffer that reached its
// state another way: obtained from a pool, appended to beyond the allocated
// length, put back and obtained again, and on a buffer grown by Append.
func c01Recycled(c *core.Ctx, p *dyn.PairOps, r *core.Rand) {
	A, B := p.A, p.B
	pairName := "[" + A.Name + "," + B.Name + "]"
	const ch, l, k = 2, 2, 6
	for _, how := range []string{"recycled-through-pool", "grown-by-append"} {
		caseID := fmt.Sprintf("%s-%s/%s", A.Name, B.Name, how)
		if !c.Want(caseID) {
			continue
		}
		d := map[string]any{"pair": pairName, "buffer": how, "channels": ch}
		pn, msg := core.Guard(func() {
			var b dyn.Buf
			frames := l
			if how == "recycled-through-pool" {
				pool := B.PoolAlloc(signal.Allocator{Channels: ch, Length: l, Capacity: k})
				for round := 0; round < 3; round++ {
					g := pool.Get()
					for i := 0; i < 5; i++ {
						g.AppendSample(B.FromInt(int64(1 + i)))
					}
					pool.Put(g)
				}
				b = pool.Get()
			} else {
				b = B.Alloc(signal.Allocator{Channels: ch, Length: 1, Capacity: 1})
				b.Append(B.Alloc(signal.Allocator{Channels: ch, Length: 3, Capacity: 3}))
				frames = 4
			}
			c.Eval(4)
			c.Distinct(core.NewHash().Str(caseID).Sum())
			if b.Length() != frames || b.Len() != ch*frames {
				c.Violate("Buffer"+pairName+"|shape|"+how, caseID, fmt.Sprintf("buffer %s reports %v, expected %d frames", how, mon.ShapeOf(b), frames), d)
				return
			}
			// striped write with channels longer than the buffer
			lens := []int{frames + 3, frames + 1}
			ss := A.MakeSS(lens)
			for ci := range lens {
				for i := 0; i < lens[ci]; i++ {
					ss.At(ci).Set(i, commonVal(r, A.TypeInfo, B.TypeInfo))
				}
			}
			if got := p.WriteStriped(ss, b); got != frames {
				c.Violate("WriteStriped"+pairName+"|count|"+how, caseID, fmt.Sprintf("returned %d on a buffer of %d frames (%s)", got, frames, how), d)
			}
			for ci := range lens {
				for i := 0; i < frames; i++ {
					if !c01Eq(b.Sample(ch*i+ci), ss.At(ci).Get(i)) {
						c.Violate("WriteStriped"+pairName+"|value|"+how, caseID, fmt.Sprintf("channel %d sample %d holds %v after writing %v (%s)", ci, i, b.Sample(ch*i+ci), ss.At(ci).Get(i), how), d)
						return
					}
				}
			}
			// interleaved write of more samples than the buffer holds
			src := A.MakeSl(ch*frames + 5)
			for i := 0; i < src.Len(); i++ {
				src.Set(i, commonVal(r, A.TypeInfo, B.TypeInfo))
			}
			if got := p.Write(src, b); got != frames {
				c.Violate("Write"+pairName+"|count|"+how, caseID, fmt.Sprintf("returned %d on a buffer of %d frames (%s)", got, frames, how), d)
			}
			if back := reversePair(A, B); back != nil {
				out := A.MakeSS([]int{frames + 2, frames + 2})
				if got := back.ReadStriped(b, out); got != frames {
					c.Violate("ReadStriped"+pairName+"|count|"+how, caseID, fmt.Sprintf("returned %d on a buffer of %d frames (%s)", got, frames, how), d)
				}
				for i := 0; i < ch*frames; i++ {
					if g := out.At(i % ch).Get(i / ch); !c01Eq(g, src.Get(i)) {
						c.Violate("ReadStriped"+pairName+"|value|"+how, caseID, fmt.Sprintf("position %d: read %v, wrote %v (%s)", i, g, src.Get(i), how), d)
						return
					}
				}
				flat := A.MakeSl(ch*frames + 4)
				if got := back.Read(b, flat); got != frames {
					c.Violate("Read"+pairName+"|count|"+how, caseID, fmt.Sprintf("returned %d on a buffer of %d frames (%s)", got, frames, how), d)
				}
			}
			if b.Length() != frames || b.Len() != ch*frames {
				c.Violate("Buffer"+pairName+"|shape|"+how, caseID, fmt.Sprintf("shape changed to %v", mon.ShapeOf(b)), d)
			}
		})
		if pn {
			c.Violate("transfer"+pairName+"|panic|"+how, caseID, fmt.Sprintf("a transfer on a buffer %s panicked: %s", how, msg), d)
		}
		c.Obs("transfers_on_recycled_or_grown_buffers", 1)
	}
}

// reversePair finds the transfer functions from element type b back to a.
func reversePair(a, b *dyn.TypeOps) *dyn.PairOps {
	if a.ID < dyn.NBuiltin && b.ID < dyn.NBuiltin {
		return dyn.Pairs[b.ID][a.ID]
	}
	if a == b {
		return a.SelfPair
	}
	for _, p := range dyn.ExtraPairs {
		if p.A == b && p.B == a {
			return p
		}
	}
	return nil
}

func c01Lens(c *core.Ctx, il, winLen, n, ch int) {
	if il > winLen {
		c.Obs("input_longer_than_buffer", 1)
	}
	if il < winLen {
		c.Obs("input_shorter_than_buffer", 1)
	}
	if n%ch != 0 {
		c.Obs("partial_last_frame_counts", 1)
	}
}

func c01Common(c *core.Ctx, inst, caseID string, d map[string]any, a *mon.Arena, w *mon.Win, before mon.Shape, got, wantRet int, callerProblems []mon.Problem) {
	if got != wantRet {
		c.Violate(inst+"|count", caseID, fmt.Sprintf("returned %d frames, expected %d", got, wantRet), d)
	}
	if after := mon.ShapeOf(w.B); after != before {
		c.Violate(inst+"|shape", caseID, fmt.Sprintf("buffer shape changed from %v to %v", before, after), d)
	}
	if ps := a.Verify(); len(ps) > 0 {
		report(c, inst+"|untouched", caseID, ps, d)
	}
	c.Obs("arena_cells_verified", int64(len(a.Shadow)))
	report(c, inst, caseID, callerProblems, d)
}

// rowHeadersChanged reports a per-channel slice of the caller whose length or
// nil-ness is no longer what the caller passed in (the rows are elements of
// the caller's outer slice and have to stay untouched).
func rowHeadersChanged(ss dyn.SS, lens []int) string {
	for ci, l := range lens {
		row := ss.At(ci)
		if row.Len() != max(l, 0) || row.IsNil() != (l < 0) {
			return fmt.Sprintf("the caller's per-channel slice %d had length %d (nil=%v) before the call and has length %d (nil=%v) after it", ci, max(l, 0), l < 0, row.Len(), row.IsNil())
		}
	}
	return ""
}

// c01Eq compares a transferred sample with the one it came from: numerically,
// and between two floating-point values also by the sign of zero (a transfer
// between floating-point types stores -0 as -0).
func c01Eq(a, b dyn.Val) bool {
	if !dyn.NumEq(a, b) {
		return false
	}
	if a.K == dyn.KFloat && b.K == dyn.KFloat && a.F == 0 && b.F == 0 {
		return math.Signbit(a.F) == math.Signbit(b.F)
	}
	return true
}

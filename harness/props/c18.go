package props

import (
	"fmt"
	"runtime"
	"runtime/debug"
	"time"

	"verifharness/core"
	"verifharness/dyn"
)

func init() {
	register(&Def{
		ID:    "C18",
		Level: "exploration",
		Rule: "steady-state operations executed on real typed buffers prepared beforehand: Sample/SetSample, accessors, AppendSample (full and appending, inside a pool cycle), Append within capacity, pool Get/Put cycles (with and without allocated length), channel views, Slice (result forced to escape) for all 13 element types; Write/Read/WriteStriped/ReadStriped for all 169 type pairs; all 169 conversion instantiations (operands of equal length, source longer, destination longer); channel counts {1,2,7,8} (thorough: {1,2,3,5,7,8}) x lengths {0,1,64,300} (thorough: {0,1,64,4096}); windowed destinations with spare capacity; " +
			"monitor: runtime.MemStats.Mallocs delta around N=200 executions after a warm-up run, GOMAXPROCS(1), GC disabled, verdict on the minimum of up to 6 repetitions; must be 0 (Slice: at most one constant-size header per call); a deliberately allocating control operation must be detected in every run; " +
			"distinct = distinct (operation, instantiation, channels, length) tuples; non-trivial = length > 0 (the operation's loop body runs); " +
			"also: a long-lived pool emptied by collections, a cycle starting 1.25 s after the previous put, a filled buffer put back as a shorter slice, tail destinations, element-type extremes as conversion inputs, two appends of sources ending in a partial frame",
		Assume: []string{"an allocation inside an operation is deterministic, a stray runtime allocation is not: hence the minimum over repetitions", "plain (non-race) build only"},
		Plan:   func(tier string) []Batch { return split("allocs", 13, 1200) },
		Run:    runC18,
	})
}

// measureAllocs returns the minimum over reps of (mallocs, bytes) per n runs.
func measureAllocs(f func(), n, reps int) (uint64, uint64) {
	f() // warm-up
	f()
	bestM, bestB := ^uint64(0), ^uint64(0)
	var m1, m2 runtime.MemStats
	for r := 0; r < reps; r++ {
		runtime.ReadMemStats(&m1)
		for i := 0; i < n; i++ {
			f()
		}
		runtime.ReadMemStats(&m2)
		if d := m2.Mallocs - m1.Mallocs; d < bestM {
			bestM = d
		}
		if d := m2.TotalAlloc - m1.TotalAlloc; d < bestB {
			bestB = d
		}
		if bestM == 0 {
			break
		}
	}
	return bestM, bestB
}

var c18ctl [][]byte

func runC18(c *core.Ctx) {
	defer runtime.GOMAXPROCS(runtime.GOMAXPROCS(1))
	defer debug.SetGCPercent(debug.SetGCPercent(-1))
	const n = 200
	// liveness of the monitor: a known allocating operation must be seen
	ctlM, _ := measureAllocs(func() { c18ctl = append(c18ctl[:0], make([]byte, 24)) }, n, 3)
	if ctlM < n {
		c.Inconclusive(fmt.Sprintf("allocation monitor did not see the control operation's %d allocations (saw %d)", n, ctlM))
		return
	}
	c.Obs("control_allocations_detected", int64(ctlM))
	chans := []int{1, 2, 3, 5, 7, 8}
	lens := []int{0, 1, 64, 4096}
	if c.Quick() {
		chans = []int{1, 2, 7, 8}
		lens = []int{0, 1, 64, 300}
	}
	check := func(p dyn.Probe, ch, length int) {
		caseID := fmt.Sprintf("%s/C%d/L%d", p.Name, ch, length)
		if !c.Want(caseID) {
			return
		}
		c.Eval(1)
		if length > 0 {
			c.Distinct(core.HashStr(caseID))
		}
		m, b := measureAllocs(p.Run, n, 6)
		d := map[string]any{"operation": p.Name, "channels": ch, "length": length, "runs": n, "mallocs": m, "bytes": b}
		c.Obs("operations_measured", 1)
		if m > uint64(p.MaxPerRun*n) {
			c.Violate(p.Name+"|allocates", caseID, fmt.Sprintf("%d heap allocations (%d bytes) in %d executions with %d channels and length %d; allowed %d", m, b, n, ch, length, p.MaxPerRun*n), d)
		} else if p.MaxPerRun > 0 && b > uint64(p.MaxPerRun*n*64) {
			c.Violate(p.Name+"|allocates", caseID, fmt.Sprintf("%d bytes allocated in %d executions: more than a constant-size header per call", b, n), d)
		}
		if p.MaxPerRun > 0 {
			c.Obs("header_only_operations_measured", 1)
		}
		c.Sample("measurement", d)
	}
	idx := 0
	for _, t := range dyn.ElemTypes() {
		idx++
		if !c.Mine(idx) {
			continue
		}
		for _, ch := range chans {
			for _, l := range lens {
				for _, p := range t.Probes(ch, l) {
					check(p, ch, l)
				}
			}
		}
		// one large shape (more than 64 KiB of samples for 32- and 64-bit types)
		for _, p := range t.Probes(8, 2100) {
			check(p, 8, 2100)
		}
	}
	// a cycle that starts some time after the previous put: the time a buffer
	// spent in the pool is not a reason to allocate (one batch, three types)
	if c.Mine(0) {
		for _, ti := range []int{1, 9, 12} {
			t := dyn.Types[ti]
			name := "pool-cycle-1.25s-after-the-previous-put[" + t.Name + "]"
			if !c.Want(name) {
				continue
			}
			c.Eval(1)
			m := t.IdleCycle(1250*time.Millisecond, 3)
			c.Obs("operations_measured", 1)
			c.Obs("pool_cycles_measured_after_an_idle_pause", 1)
			if m > 0 {
				c.Violate(name+"|allocates", name, fmt.Sprintf("%d heap allocations in one get/put cycle that started 1.25 s after the previous put (minimum of 3 repetitions); allowed 0", m),
					map[string]any{"operation": name, "mallocs": m, "pause_ms": 1250})
			}
		}
	}
	for ai := 0; ai < dyn.NBuiltin; ai++ {
		for bi := 0; bi < dyn.NBuiltin; bi++ {
			idx++
			if !c.Mine(idx) {
				continue
			}
			for ci, ch := range chans {
				for li, l := range lens {
					if c.Quick() && ai != bi && (ci+li+ai+bi)%3 != 0 {
						continue
					}
					for _, p := range dyn.Pairs[ai][bi].Probes(ch, l) {
						check(p, ch, l)
					}
				}
			}
		}
	}
	for xi, xp := range dyn.ExtraPairs {
		idx++
		if !c.Mine(idx) {
			continue
		}
		for _, ch := range chans {
			for _, l := range lens {
				for _, p := range xp.Probes(ch, l) {
					check(p, ch, l)
				}
			}
		}
		_ = xi
	}
	for vi, cv := range dyn.AllConvs() {
		idx++
		if !c.Mine(idx) {
			continue
		}
		for ci, ch := range chans {
			for li, l := range lens {
				if c.Quick() && (ci+li+vi)%2 != 0 {
					continue
				}
				check(dyn.Probe{Name: cv.Name(), Run: cv.Probe(ch, l)}, ch, l)
			}
		}
		check(dyn.Probe{Name: cv.Name(), Run: cv.Probe(8, 2100)}, 8, 2100) // more than 16384 samples
	}
	c.Floor("operations_measured", 1000)
	c.Floor("control_allocations_detected", 200)
}

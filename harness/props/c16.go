package props

import (
	"fmt"
	"math"
	"math/big"
	"sort"

	"pipelined.dev/signal"
	"verifharness/core"
	"verifharness/dyn"
)

func init() {
	register(&Def{
		ID:    "C16",
		Level: "exploration",
		Rule: "all 64 bit depths x (int64/uint64 values within +-3 of 0, of +-2^k for every k, of 1.5*2^k, of the type bounds, plus seeded random values of random magnitude), every result compared with math/big; " +
			"clipping checked for identity in range, nearest bound outside, idempotence and order preservation on the sorted value list; Scale for all 11 integer types and all pairs h>=l compared with 2^(h-l) whenever that fits the type (combinations that do not fit are called too, narrow types first, without asserting their result); " +
			"distinct = distinct (depth, operation, value) tuples (value lists are de-duplicated); non-trivial = every tuple (each one is a separate library evaluation)",
		Assume:    []string{"Scale is not asserted when 2^(h-l) does not fit the integer type", "depth 0 is outside the property"},
		Exhaustiv: "all 64 depths and all (h,l) pairs for all 11 integer types are enumerated; the value axis is boundary-dense + seeded random",
		Plan:      func(tier string) []Batch { return split("depths", 4, 600) },
		Run:       runC16,
	})
}

func pow2(k int) *big.Int { return new(big.Int).Lsh(big.NewInt(1), uint(k)) }

func c16Values(c *core.Ctx) ([]int64, []uint64) {
	is := map[int64]bool{}
	us := map[uint64]bool{}
	addI := func(v int64) { is[v] = true }
	addU := func(v uint64) { us[v] = true }
	for d := int64(-3); d <= 3; d++ {
		addI(d)
		addI(math.MaxInt64 + d) // wraps: still a legal int64
		addI(math.MinInt64 + d)
		addU(uint64(d))
		addU(math.MaxUint64 + uint64(d))
		for k := 0; k < 64; k++ {
			addI(int64(1)<<k + d)
			addI(-(int64(1) << k) + d)
			addU(uint64(1)<<k + uint64(d))
			if k > 0 {
				addI(int64(3)<<(k-1) + d)
				addI(-(int64(3) << (k - 1)) + d)
				addU(uint64(3)<<(k-1) + uint64(d))
			}
		}
	}
	// random part is the same for every batch (depths are what is partitioned)
	r := core.NewRand(c.Seed, core.HashStr("C16-values"))
	for i := 0; i < c.Pick(20000, 400000); i++ {
		sh := uint(r.Intn(64))
		addU(r.Uint64() >> sh)
		addI(int64(r.Uint64()) >> sh)
	}
	var il []int64
	for v := range is {
		il = append(il, v)
	}
	var ul []uint64
	for v := range us {
		ul = append(ul, v)
	}
	sort.Slice(il, func(a, b int) bool { return il[a] < il[b] })
	sort.Slice(ul, func(a, b int) bool { return ul[a] < ul[b] })
	return il, ul
}

func runC16(c *core.Ctx) {
	il, ul := c16Values(c)
	for b := 1; b <= 64; b++ {
		if !c.Mine(b) {
			continue
		}
		caseID := fmt.Sprintf("depth%d", b)
		if !c.Want(caseID) {
			continue
		}
		bd := signal.BitDepth(b)
		wantMaxS := new(big.Int).Sub(pow2(b-1), big.NewInt(1))
		wantMinS := new(big.Int).Neg(pow2(b - 1))
		wantMaxU := new(big.Int).Sub(pow2(b), big.NewInt(1))
		d := map[string]any{"depth": b}
		c.Eval(3)
		c.DistinctN(3)
		if got := big.NewInt(bd.MaxSignedValue()); got.Cmp(wantMaxS) != 0 {
			c.Violate("MaxSignedValue|wrong", caseID, fmt.Sprintf("BitDepth(%d).MaxSignedValue()=%v want %v", b, got, wantMaxS), d)
		}
		if got := big.NewInt(bd.MinSignedValue()); got.Cmp(wantMinS) != 0 {
			c.Violate("MinSignedValue|wrong", caseID, fmt.Sprintf("BitDepth(%d).MinSignedValue()=%v want %v", b, got, wantMinS), d)
		}
		if got := new(big.Int).SetUint64(bd.MaxUnsignedValue()); got.Cmp(wantMaxU) != 0 {
			c.Violate("MaxUnsignedValue|wrong", caseID, fmt.Sprintf("BitDepth(%d).MaxUnsignedValue()=%v want %v", b, got, wantMaxU), d)
		}
		c.Obs("depths", 1)
		// signed clipping
		var prev int64
		for i, v := range il {
			got := bd.SignedValue(v)
			bv := big.NewInt(v)
			want := bv
			cls := "in-range"
			if bv.Cmp(wantMinS) < 0 {
				want = wantMinS
				cls = "below"
			} else if bv.Cmp(wantMaxS) > 0 {
				want = wantMaxS
				cls = "above"
			}
			c.Obs("signed_"+cls, 1)
			dd := map[string]any{"depth": b, "value": v}
			if big.NewInt(got).Cmp(want) != 0 {
				c.Violate("SignedValue|"+cls, caseID, fmt.Sprintf("BitDepth(%d).SignedValue(%d)=%d want %v", b, v, got, want), dd)
			}
			if again := bd.SignedValue(got); again != got {
				c.Violate("SignedValue|idempotence", caseID, fmt.Sprintf("BitDepth(%d): clip(%d)=%d but clip(clip)=%d", b, v, got, again), dd)
			}
			if i > 0 && got < prev {
				c.Violate("SignedValue|order", caseID, fmt.Sprintf("BitDepth(%d): clip(%d)=%d < clip(%d)=%d", b, v, got, il[i-1], prev), dd)
			}
			prev = got
			if i == len(il)/3 {
				c.Sample("signed-clip", dd)
			}
		}
		c.Eval(int64(2 * len(il)))
		c.DistinctN(int64(len(il)))
		var prevU uint64
		for i, v := range ul {
			got := bd.UnsignedValue(v)
			bv := new(big.Int).SetUint64(v)
			want := bv
			cls := "in-range"
			if bv.Cmp(wantMaxU) > 0 {
				want = wantMaxU
				cls = "above"
			}
			c.Obs("unsigned_"+cls, 1)
			dd := map[string]any{"depth": b, "value": v}
			if new(big.Int).SetUint64(got).Cmp(want) != 0 {
				c.Violate("UnsignedValue|"+cls, caseID, fmt.Sprintf("BitDepth(%d).UnsignedValue(%d)=%d want %v", b, v, got, want), dd)
			}
			if again := bd.UnsignedValue(got); again != got {
				c.Violate("UnsignedValue|idempotence", caseID, fmt.Sprintf("BitDepth(%d): clip(%d)=%d but clip(clip)=%d", b, v, got, again), dd)
			}
			if i > 0 && got < prevU {
				c.Violate("UnsignedValue|order", caseID, fmt.Sprintf("BitDepth(%d): clip(%d)=%d < clip(%d)=%d", b, v, got, ul[i-1], prevU), dd)
			}
			prevU = got
		}
		c.Eval(int64(2 * len(ul)))
		c.DistinctN(int64(len(ul)))
		// Scale with this depth as the high one
		for _, sc := range dyn.Scales {
			for l := 1; l <= b; l++ {
				sh := b - l
				fits := sh <= sc.T.Bits-1
				if sc.T.Kind == dyn.KInt {
					fits = sh <= sc.T.Bits-2
				}
				if !fits {
					// in the domain (all pairs h>=l, all types), nothing to assert; but
					// the call must not disturb later calls for other element types
					core.Guard(func() { sc.Call(b, l) })
					c.Obs("scale_not_representable_called_unasserted", 1)
					continue
				}
				c.Eval(1)
				c.DistinctN(1)
				c.Obs("scale_checked", 1)
				dd := map[string]any{"type": sc.T.Name, "high": b, "low": l}
				var got dyn.Val
				if p, msg := core.Guard(func() { got = sc.Call(b, l) }); p {
					c.Violate("Scale["+sc.T.Name+"]|panic", caseID, "Scale panicked: "+msg, dd)
					continue
				}
				if got.Big().Cmp(new(big.Rat).SetInt(pow2(sh))) != 0 {
					c.Violate("Scale["+sc.T.Name+"]|wrong", caseID, fmt.Sprintf("Scale[%s](%d,%d)=%v want 2^%d", sc.T.Name, b, l, got, sh), dd)
				}
			}
		}
	}
	c.R.Exhaustive["depths-1..64"] = true
	c.Floor("depths", 64)
	c.Floor("scale_checked", 1000)
}

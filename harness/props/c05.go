package props

import (
	"fmt"
	"math"

	"pipelined.dev/signal"
	"verifharness/core"
	"verifharness/dyn"
	"verifharness/mon"
)

func init() {
	register(&Def{
		ID:    "C05",
		Level: "exploration",
		Rule: "all 169 instantiations of the nine conversions over the built-in element types plus 31 instantiations over named element types (type NInt16 int16 ...) x channel counts 1..8 x (source window, destination window) shape pairs with the source shorter than, equal to and longer than the destination, windows of larger stamped buffers, non-frame-aligned lengths x seeded sample values (boundary and random integers; floats in and far outside [-1,1], +-Inf, subnormals, NaN for float->float only); " +
			"two canary arenas (source and destination) are re-read through the hook; every written position is compared with the result of the SAME function on a 1-channel 1-sample buffer holding the same value (position independence), float->float additionally with value preservation / nearest-float32; in addition one fixed input vector per instantiation is converted in three fresh processes that visit the instantiations in different orders, and the driver requires identical result digests (no dependence on the process's history); " +
			"distinct = distinct (instantiation, shape pair) tuples; non-trivial = common prefix n > 0",
		Assume: []string{"NaN excluded for float->fixed (result unspecified)", "the numeric correctness of the fixed-point formulas is the subject of C06..C09, here only structure, position independence and float->float value preservation"},
		Plan: func(tier string) []Batch {
			bs := split("convs", 13, 1200)
			// the same fixed inputs through all instantiations in opposite
			// orders, each in its own fresh process: results must not depend on
			// what the process converted before
			return append(bs, digestBatches()...)
		},
		Run: runC05,
	})
}

// single runs the conversion on one sample alone.
func convSingle(cv *dyn.ConvOp, v dyn.Val) (res dyn.Val, ret int, panicked bool) {
	s := cv.S.Alloc(signal.Allocator{Channels: 1, Length: 1, Capacity: 1})
	d := cv.D.Alloc(signal.Allocator{Channels: 1, Length: 1, Capacity: 1})
	s.SetSample(0, v)
	p, _ := core.Guard(func() { ret = cv.Call(s, d) })
	return d.Sample(0), ret, p
}

func nearestF32OK(v float64, r float64) bool {
	// r is the float32 result widened exactly; both float32 neighbours must
	// not be closer to v than r is.
	if math.IsNaN(v) {
		return math.IsNaN(r)
	}
	if math.IsInf(v, 0) {
		return r == v
	}
	r32 := float32(r)
	if float64(r32) != r && !math.IsInf(r, 0) {
		return false
	}
	if math.IsInf(r, 0) {
		// overflow is legitimate only at or beyond the IEEE halfway point
		// between MaxFloat32 and 2^128
		half := math.Ldexp(1, 128) - math.Ldexp(1, 103)
		return math.Abs(v) >= half && (r > 0) == (v > 0)
	}
	up := float64(math.Nextafter32(r32, float32(math.Inf(1))))
	dn := float64(math.Nextafter32(r32, float32(math.Inf(-1))))
	dr := math.Abs(r - v)
	if !math.IsInf(up, 0) && math.Abs(up-v) < dr {
		return false
	}
	if !math.IsInf(dn, 0) && math.Abs(dn-v) < dr {
		return false
	}
	return true
}

// c05Digests converts one fixed input vector per instantiation (a function of
// the instantiation only) and reports a digest of the results; the driver
// requires the digests of different processes to agree.
func c05Digests(c *core.Ctx) { convDigests(c, func(*dyn.ConvOp) bool { return true }) }

// digestBatches are the three fresh processes that visit the instantiations
// in different orders.
func digestBatches() []Batch {
	return []Batch{
		{Name: "digest-forward", Mode: "digest-forward", NBatch: 1, WatchdogS: 600, Weight: 1},
		{Name: "digest-reverse", Mode: "digest-reverse", NBatch: 1, WatchdogS: 600, Weight: 1},
		{Name: "digest-interleaved", Mode: "digest-interleaved", NBatch: 1, WatchdogS: 600, Weight: 1},
	}
}

func isDigestMode(mode string) bool { return len(mode) > 6 && mode[:6] == "digest" }

func convDigests(c *core.Ctx, keep func(*dyn.ConvOp) bool) {
	var all []*dyn.ConvOp
	for _, cv := range dyn.AllConvs() {
		if keep(cv) {
			all = append(all, cv)
		}
	}
	order := make([]int, len(all))
	for i := range order {
		order[i] = i
	}
	switch c.Mode {
	case "digest-reverse":
		for i, j := 0, len(order)-1; i < j; i, j = i+1, j-1 {
			order[i], order[j] = order[j], order[i]
		}
	case "digest-interleaved":
		// destinations of the same source type visited widest first
		for i := 0; i+1 < len(order); i += 2 {
			order[i], order[i+1] = order[i+1], order[i]
		}
	}
	for _, ci := range order {
		cv := all[ci]
		r := core.NewRand(12345, core.HashStr(cv.Name())) // independent of VERIF_SEED and of the order
		n := 700
		in := make([]dyn.Val, 0, n+300)
		if cv.S.Bits == 8 {
			for v := 0; v < 256; v++ { // every 8-bit code
				if cv.S.Kind == dyn.KInt {
					in = append(in, dyn.IntVal(int64(v)-128))
				} else {
					in = append(in, dyn.UintVal(uint64(v)))
				}
			}
		}
		for len(in) < n {
			in = append(in, randSample(r, cv.S.TypeInfo, cv.Fn == "FloatAsFloat"))
		}
		src := cv.S.Alloc(signal.Allocator{Channels: 2, Length: len(in)/2 + 1, Capacity: len(in)/2 + 1})
		dst := cv.D.Alloc(signal.Allocator{Channels: 2, Length: len(in)/2 + 1, Capacity: len(in)/2 + 1})
		for i, v := range in {
			src.SetSample(i, v)
		}
		h := core.NewHash()
		if p, msg := core.Guard(func() { h.Int(cv.Call(src, dst)) }); p {
			c.Violate(cv.Name()+"|panic", "digest/"+cv.Name(), "conversion panicked: "+msg, nil)
			continue
		}
		for i := 0; i < dst.Len(); i++ {
			v := dst.Sample(i)
			if v.K == dyn.KFloat && math.IsNaN(v.F) {
				h.U64(0x7ff8dead)
			} else {
				h.U64(v.Bits())
			}
		}
		c.Digest(cv.Name(), fmt.Sprintf("%016x", h.Sum()))
		c.Eval(1)
		c.Distinct(core.NewHash().Str(c.Mode).Str(cv.Name()).Sum())
		c.Obs("digest_conversions", 1)
	}
}

func runC05(c *core.Ctx) {
	if isDigestMode(c.Mode) {
		c05Digests(c)
		return
	}
	for ci, cv := range dyn.AllConvs() {
		if !c.Mine(ci) {
			continue
		}
		r := c.Rand(uint64(ci))
		nShapes := c.Pick(60, 10000)
		for si := 0; si < nShapes; si++ {
			caseID := fmt.Sprintf("%s/s%d", cv.Name(), si)
			ch := r.Range(1, 8)
			ks, kd := r.Range(0, 24), r.Range(0, 24)
			if si%11 == 10 { // long buffers: paths that depend on the buffer length
				ks, kd = r.Range(100, 700), r.Range(100, 700)
			}
			huge := si == 5 && ci%4 == 0 // more than 65536 samples, size not divisible by small numbers
			if huge {
				ch = 1 + ci%3
				ks = 70001/ch + 3 + ci%7
				kd = ks
				c.Obs("conversions_of_more_than_65536_samples", 1)
			}
			ss := r.Range(0, ks)
			se := r.Range(ss, ks)
			ds := r.Range(0, kd)
			de := r.Range(ds, kd)
			switch si % 5 {
			case 0: // equal lengths
				kd, ds, de = ks, ss, se
			case 1: // source longer
				if se-ss <= de-ds {
					ss, se = 0, ks
				}
			case 2: // source shorter
				if se-ss >= de-ds {
					ds, de = 0, kd
				}
			}
			xs, xd := 0, 0
			if r.Chance(1, 3) {
				xs = r.Range(0, ch-1)
			}
			if r.Chance(1, 3) {
				xd = r.Range(0, ch-1)
			}
			if huge {
				ss, se, ds, de, xs, xd = 0, ks, 0, kd, 0, 0
			}
			if !c.Want(caseID) {
				continue
			}
			c05Case(c, cv, r, ch, ks, ss, se, xs, kd, ds, de, xd, caseID)
		}
		if cv.S == cv.D {
			// same element type: both operands may be windows of one storage
			for k := 0; k < c.Pick(6, 200); k++ {
				caseID := fmt.Sprintf("%s/shared%d", cv.Name(), k)
				if c.Want(caseID) {
					c05Shared(c, cv, r, caseID)
				}
			}
		}
		c.Obs("instantiations_executed", 1)
	}
	c.Floor("instantiations_executed", int64(len(dyn.AllConvs())))
	c.Floor("conversions_between_windows_of_one_buffer", 50)
	c.Floor("source_longer", 100)
	c.Floor("source_shorter", 100)
	c.Floor("untouched_destination_tail_cells", 1000)
}

// c05Shared converts between two disjoint windows of ONE arena (same element
// type), source before the destination and the other way round.
func c05Shared(c *core.Ctx, cv *dyn.ConvOp, r *core.Rand, caseID string) {
	name := cv.Name()
	ch := r.Range(1, 4)
	k := r.Range(4, 40)
	cut := r.Range(1, k-1)
	a := mon.NewArena(cv.S, ch, k, 11)
	lo := [2]int{r.Range(0, cut-1), 0}
	lo[1] = r.Range(lo[0]+1, cut)
	hi := [2]int{r.Range(cut, k-1), 0}
	hi[1] = r.Range(hi[0]+1, k)
	srcW, dstW := lo, hi
	if r.Bool() {
		srcW, dstW = hi, lo
	}
	ws := a.Window(srcW[0], srcW[1], 0, 0)
	wd := a.Window(dstW[0], dstW[1], 0, 0)
	for i := 0; i < ws.B.Len(); i++ {
		ws.B.RawAll().Set(i, randSample(r, cv.S.TypeInfo, cv.Fn == "FloatAsFloat"))
		ws.Expect(i, ws.B.RawAt(i))
	}
	n := min(ws.B.Len(), wd.B.Len())
	d := map[string]any{"fn": name, "channels": ch, "one_parent_of_frames": k, "src_window": srcW, "dst_window": dstW}
	c.Eval(1)
	c.Distinct(core.NewHash().Str(name).Str("shared").Int(ch).Int(k).Int(srcW[0]).Int(srcW[1]).Int(dstW[0]).Int(dstW[1]).Sum())
	var got int
	if p, msg := core.Guard(func() { got = cv.Call(ws.B, wd.B) }); p {
		c.Violate(name+"|panic", caseID, "conversion between two windows of one buffer panicked: "+msg, d)
		return
	}
	if want := min(srcW[1]-srcW[0], dstW[1]-dstW[0]); got != want {
		c.Violate(name+"|count", caseID, fmt.Sprintf("returned %d, expected %d", got, want), d)
	}
	for i := 0; i < n; i++ {
		v := a.Shadow[ws.Off+i]
		cell := wd.B.RawAt(i)
		ref, _, _ := convSingle(cv, v)
		if !(cell.Same(ref) || (cell.K == dyn.KFloat && math.IsNaN(cell.F) && math.IsNaN(ref.F))) {
			c.Violate(name+"|position-dependence", caseID, fmt.Sprintf("windows of one buffer: position %d: sample %v became %v, converted alone it gives %v", i, v, cell, ref), d)
			return
		}
		wd.Expect(i, cell)
	}
	if ps := a.Verify(); len(ps) > 0 {
		report(c, name+"|shared-storage-operands", caseID, ps, d)
	}
	c.Obs("conversions_between_windows_of_one_buffer", 1)
}

func c05Case(c *core.Ctx, cv *dyn.ConvOp, r *core.Rand, ch, ks, ss, se, xs, kd, ds, de, xd int, caseID string) {
	name := cv.Name()
	as := mon.NewArena(cv.S, ch, ks, 5)
	ws := as.Window(ss, se, xs, 5)
	ad := mon.NewArena(cv.D, ch, kd, 6)
	wd := ad.Window(ds, de, xd, 6)
	ff := cv.Fn == "FloatAsFloat"
	allowNaN := ff
	for i := 0; i < ws.B.Len(); i++ {
		ws.B.RawAll().Set(i, randSample(r, cv.S.TypeInfo, allowNaN))
		ws.Expect(i, ws.B.RawAt(i))
	}
	sl, dl := ws.B.Len(), wd.B.Len()
	n := min(sl, dl)
	d := map[string]any{"fn": name, "channels": ch, "src": map[string]any{"parent_frames": ks, "window": []int{ss, se}, "extra": xs, "len": sl},
		"dst": map[string]any{"parent_frames": kd, "window": []int{ds, de}, "extra": xd, "len": dl}}
	bs, bd := mon.ShapeOf(ws.B), mon.ShapeOf(wd.B)
	c.Eval(1)
	if n > 0 {
		c.Distinct(core.NewHash().Str(name).Int(ch).Int(ks).Int(ss).Int(se).Int(xs).Int(kd).Int(ds).Int(de).Int(xd).Sum())
	}
	switch {
	case sl > dl:
		c.Obs("source_longer", 1)
	case sl < dl:
		c.Obs("source_shorter", 1)
	default:
		c.Obs("source_equal", 1)
	}
	var got int
	if p, msg := core.Guard(func() { got = cv.Call(ws.B, wd.B) }); p {
		c.Violate(name+"|panic", caseID, "conversion panicked: "+msg, d)
		return
	}
	c.Sample("conversion", d)
	wantRet := min(mon.CeilDiv(sl, ch), mon.CeilDiv(dl, ch))
	if n == 0 {
		wantRet = 0
	}
	if got != wantRet {
		c.Violate(name+"|count", caseID, fmt.Sprintf("returned %d, expected min(%d,%d)=%d", got, mon.CeilDiv(sl, ch), mon.CeilDiv(dl, ch), wantRet), d)
	}
	for i := 0; i < n; i++ {
		v := as.Shadow[ws.Off+i]
		cell := wd.B.RawAt(i)
		ref, _, pn := convSingle(cv, v)
		if pn {
			c.Violate(name+"|panic", caseID, fmt.Sprintf("conversion of the single sample %v panicked", v), d)
			break
		}
		if !(cell.Same(ref) || (cell.K == dyn.KFloat && math.IsNaN(cell.F) && math.IsNaN(ref.F))) {
			c.Violate(name+"|position-dependence", caseID, fmt.Sprintf("position %d: sample %v became %v, but the same sample converted alone gives %v", i, v, cell, ref), d)
			break
		}
		if ff {
			ok := true
			if cv.D.Bits >= cv.S.Bits {
				ok = cell.Same(v) || (math.IsNaN(v.F) && math.IsNaN(cell.F))
			} else {
				ok = nearestF32OK(v.F, cell.F)
			}
			if !ok {
				c.Violate(name+"|value", caseID, fmt.Sprintf("position %d: %v converted to %v (value not preserved / not the nearest float32)", i, v, cell), d)
				break
			}
			c.Obs("float_values_checked", 1)
			if math.IsInf(v.F, 0) || math.IsNaN(v.F) || math.Abs(v.F) > 1 {
				c.Obs("float_out_of_range_values_checked", 1)
			}
		}
		wd.Expect(i, cell)
	}
	c.Obs("untouched_destination_tail_cells", int64(len(ad.Shadow)-n))
	if as := mon.ShapeOf(ws.B); as != bs {
		c.Violate(name+"|shape", caseID, fmt.Sprintf("source shape changed from %v to %v", bs, as), d)
	}
	if a2 := mon.ShapeOf(wd.B); a2 != bd {
		c.Violate(name+"|shape", caseID, fmt.Sprintf("destination shape changed from %v to %v", bd, a2), d)
	}
	if ps := as.Verify(); len(ps) > 0 {
		report(c, name+"|source-changed", caseID, ps, d)
	}
	if ps := ad.Verify(); len(ps) > 0 {
		report(c, name+"|destination-beyond-prefix", caseID, ps, d)
	}
}

package props

import (
	"fmt"
	"math"
	"os"
	"runtime"
	"strconv"
	"strings"
	"time"

	"pipelined.dev/signal"
	"verifharness/core"
	"verifharness/dyn"
	"verifharness/mon"
)

func report(c *core.Ctx, inst, caseID string, ps []mon.Problem, detail any) {
	for _, p := range ps {
		c.Violate(inst+"|"+p.Kind, caseID, p.Msg, detail)
	}
}

// windowClasses enumerates (start,end) frame ranges of a K-frame parent:
// whole, prefix, interior, suffix, empty at start/middle/end, one frame.
func windowClasses(k int) [][2]int {
	set := map[[2]int]bool{}
	var out [][2]int
	add := func(s, e int) {
		if s < 0 || e > k || s > e {
			return
		}
		p := [2]int{s, e}
		if !set[p] {
			set[p] = true
			out = append(out, p)
		}
	}
	add(0, k)
	add(0, k/2)
	add(1, k-1)
	add(k/2, k)
	add(1, k)
	add(0, 0)
	add(k/2, k/2)
	add(k, k)
	add(1, 2)
	add(k-1, k)
	add(2, k-2)
	return out
}

func init() {
	register(&Def{
		ID:    "C14",
		Level: "exploration",
		Rule: "every built-in element type x channel counts 1..8 x parent arenas of several frame counts x window classes (whole/prefix/interior/suffix/empty) x every channel x every index below the per-channel length; " +
			"a case = one (type, C, K, window, channel, index) read + write + index query against a canary arena with position-unique values; distinct = distinct case tuples; non-trivial = view with Length>0 (a sample is actually addressed)",
		Assume: []string{"positions are computed by the oracle as C*i+c without calling the library's BufferIndex", "arena contents are re-read through the verif hook slice, not through the library"},
		Plan:   func(tier string) []Batch { return split("arena", 4, 300) },
		Run:    runC14,
	})
}

func runC14(c *core.Ctx) {
	ks := []int{1, 2, 3, 5, 8, 300}
	if !c.Quick() {
		ks = []int{1, 2, 3, 4, 5, 6, 7, 8, 9, 12, 16, 17, 33, 64}
	}
	n := 0
	for _, t := range dyn.ElemTypes() {
		for ch := 1; ch <= 8; ch++ {
			for _, k := range ks {
				for _, w := range windowClasses(k) {
					if k >= 300 && (ch%3 != 2 || w[1]-w[0] < k/2) {
						continue // the long parents: a few channel counts, the long windows only
					}
					n++
					if !c.Mine(n) {
						continue
					}
					caseID := fmt.Sprintf("%s/C%d/K%d/w%d-%d", t.Name, ch, k, w[0], w[1])
					if !c.Want(caseID) {
						continue
					}
					c14Case(c, t, ch, k, w[0], w[1], caseID)
				}
			}
		}
	}
	// interleaved positions at and beyond 2^31: an int8 buffer of 2 x (2^30+4)
	// samples (2 GiB of address space of which only the touched pages become
	// resident; skipped, and said so, when the machine reports less than 8 GiB
	// of available memory)
	if c.Mine(3) && c.Want("beyond-2^31-samples") {
		if availableMemoryKiB() < 8<<20 {
			c.Obs("positions_beyond_2^31_skipped_for_lack_of_memory", 1)
		} else {
			c14Huge(c)
		}
	}
	// views taken BEFORE the parent is mutated must keep addressing the
	// parent's channel: after writes, sample appends, in-place and growing
	// buffer appends
	hn := 0
	for _, t := range dyn.ElemTypes() {
		for ch := 1; ch <= 4; ch++ {
			for _, shape := range [][2]int{{0, 3}, {2, 4}, {3, 3}, {1, 6}, {0, 0}} {
				hn++
				if !c.Mine(hn) {
					continue
				}
				caseID := fmt.Sprintf("retained/%s/C%d/L%d/K%d", t.Name, ch, shape[0], shape[1])
				if !c.Want(caseID) {
					continue
				}
				c14Retained(c, t, ch, shape[0], shape[1], caseID, 0)
				if ch >= 2 && shape[0] < shape[1] {
					// the parent ends in a partly filled frame when the views are taken
					c14Retained(c, t, ch, shape[0], shape[1], caseID+"/partial-frame", 1+(hn+ch)%(ch-1))
				}
			}
		}
	}
	c.Floor("views_with_samples", 1)
	c.Floor("retained_view_checks_after_growth", 50)
}

// extremeVal is the lowest (neg) or highest value of the element type; for
// floats -Inf / +Inf.
func extremeVal(t *dyn.TypeInfo, neg bool) dyn.Val {
	switch t.Kind {
	case dyn.KInt:
		if neg {
			return dyn.IntVal(t.MinI())
		}
		return dyn.IntVal(t.MaxI())
	case dyn.KUint:
		if neg {
			return dyn.UintVal(0)
		}
		return dyn.UintVal(t.MaxU())
	}
	if neg {
		return dyn.FloatVal(math.Inf(-1))
	}
	return dyn.FloatVal(math.Inf(1))
}

func c14Retained(c *core.Ctx, t *dyn.TypeOps, ch, l, k int, caseID string, ragged int) {
	inst := "Channel[" + t.Name + "]"
	d := map[string]any{"type": t.Name, "channels": ch, "length": l, "capacity": k, "scenario": "views taken first, parent mutated afterwards"}
	parent := t.Alloc(signal.Allocator{Channels: ch, Length: l, Capacity: k})
	stampN := int64(0)
	stamp := func() dyn.Val {
		stampN++
		n := stampN
		if t.Bits == 8 {
			n = 1 + n%100
		}
		return t.FromInt(n)
	}
	for i := 0; i < parent.Len(); i++ {
		parent.SetSample(i, stamp())
	}
	for i := 0; i < ragged; i++ {
		parent.AppendSample(stamp())
	}
	if ragged > 0 {
		d["samples_of_a_partial_last_frame_when_the_views_were_taken"] = ragged
		c.Obs("retained_views_taken_on_a_parent_with_a_partial_last_frame", 1)
	}
	views := make([]dyn.Chan, ch)
	for cc := range views {
		views[cc] = parent.Channel(cc)
	}
	verify := func(step string) bool {
		ok := true
		p, msg := core.Guard(func() {
			full := parent.Len() / ch // frames completely inside the length
			for cc, v := range views {
				if v.Length() != parent.Length() || v.Capacity() != parent.Capacity() || v.Channels() != 1 {
					c.Violate(inst+"|retained-shape", caseID, fmt.Sprintf("after %s: view of channel %d reports length/capacity %d/%d, parent %d/%d", step, cc, v.Length(), v.Capacity(), parent.Length(), parent.Capacity()), d)
					ok = false
					return
				}
				// the sample of a partly filled last frame, for the channels that have one
				if rem := parent.Len() % ch; cc < rem {
					pos := ch*full + cc
					c.Eval(1)
					c.Obs("samples_of_a_partial_last_frame_addressed_through_views", 1)
					if got := v.BufferIndex(0, full); got != pos {
						c.Violate(inst+"|retained-index", caseID, fmt.Sprintf("after %s: view of channel %d reports buffer index %d for index %d (the last, partly filled frame), the parent's position is %d", step, cc, got, full, pos), d)
						ok = false
						return
					}
					if got, want := v.Sample(full), parent.Sample(pos); !got.Same(want) {
						c.Violate(inst+"|retained-read", caseID, fmt.Sprintf("after %s: view of channel %d reads %v at index %d (the last, partly filled frame), the parent's sample at position %d is %v", step, cc, got, full, pos, want), d)
						ok = false
						return
					}
					// a write through the view at that index changes that sample and
					// nothing else: not the parent's length, not its neighbours
					lenBefore, capBefore := parent.Len(), parent.Cap()
					var nbBefore []dyn.Val
					for q := 0; q < parent.RawCap(); q++ {
						nbBefore = append(nbBefore, parent.RawAt(q))
					}
					x := stamp()
					v.SetSample(full, x)
					if parent.Len() != lenBefore || parent.Cap() != capBefore {
						c.Violate(inst+"|retained-write", caseID, fmt.Sprintf("after %s: writing index %d (the last, partly filled frame) through the view of channel %d changed the parent's Len/Cap from %d/%d to %d/%d", step, full, cc, lenBefore, capBefore, parent.Len(), parent.Cap()), d)
						ok = false
						return
					}
					for q := 0; q < parent.RawCap(); q++ {
						want := nbBefore[q]
						if q == pos {
							want = x
						}
						if got := parent.RawAt(q); !got.Same(want) {
							c.Violate(inst+"|retained-write", caseID, fmt.Sprintf("after %s: writing %v at index %d (the last, partly filled frame) through the view of channel %d: storage position %d holds %v, expected %v", step, x, full, cc, q, got, want), d)
							ok = false
							return
						}
					}
				}
				for i := 0; i < full; i++ {
					pos := ch*i + cc
					c.Eval(1)
					if got := v.BufferIndex(0, i); got != pos {
						c.Violate(inst+"|retained-index", caseID, fmt.Sprintf("after %s: view of channel %d reports buffer index %d for index %d, the parent's position is %d", step, cc, got, i, pos), d)
						ok = false
						return
					}
					if got, want := v.Sample(i), parent.Sample(pos); !got.Same(want) {
						c.Violate(inst+"|retained-read", caseID, fmt.Sprintf("after %s: view of channel %d taken earlier reads %v at index %d, the parent's sample at position %d is %v", step, cc, got, i, pos, want), d)
						ok = false
						return
					}
					x := stamp()
					v.SetSample(i, x)
					if got := parent.Sample(pos); !got.Same(x) {
						c.Violate(inst+"|retained-write", caseID, fmt.Sprintf("after %s: wrote %v through the view of channel %d (taken earlier) at index %d, the parent's position %d holds %v", step, x, cc, i, pos, got), d)
						ok = false
						return
					}
					if bi := v.BufferIndex(cc, i); bi != pos {
						c.Violate(inst+"|bufferindex", caseID, fmt.Sprintf("after %s: BufferIndex(%d,%d)=%d want %d", step, cc, i, bi, pos), d)
						ok = false
						return
					}
				}
			}
		})
		if p {
			c.Violate(inst+"|panic", caseID, fmt.Sprintf("after %s: use of a view taken earlier panicked: %s", step, msg), d)
			return false
		}
		c.Distinct(core.NewHash().Str(caseID).Str(step).Sum())
		return ok
	}
	if !verify("taking the views") {
		return
	}
	for i := 0; i < parent.Len(); i += 2 {
		parent.SetSample(i, stamp())
	}
	if !verify("SetSample on the parent") {
		return
	}
	for i := 0; i < ch+1; i++ {
		parent.AppendSample(stamp())
		if i == 0 && !verify("one AppendSample on the parent") {
			return
		}
	}
	// complete the frame
	for parent.Len()%ch != 0 && parent.Len() < parent.Cap() {
		parent.AppendSample(stamp())
	}
	if !verify("AppendSample on the parent") {
		return
	}
	mk := func(frames int) dyn.Buf {
		s := t.Alloc(signal.Allocator{Channels: ch, Length: frames, Capacity: frames})
		for i := 0; i < s.Len(); i++ {
			s.SetSample(i, stamp())
		}
		return s
	}
	if room := (parent.Cap() - parent.Len()) / ch; room > 0 && parent.Len()%ch == 0 {
		parent.Append(mk(1))
		if !verify("in-place Append on the parent") {
			return
		}
	}
	if parent.Len()%ch == 0 {
		before := parent.RawBase()
		parent.Append(mk(parent.Capacity() + 2)) // must reallocate
		if parent.RawBase() != before {
			c.Obs("retained_view_checks_after_growth", 1)
		}
		if !verify("growing Append on the parent (storage moved)") {
			return
		}
		parent.Append(parent) // self-append, grows again
		if !verify("self-Append on the parent") {
			return
		}
	}
	c.Sample("retained-views", d)
	// the parent of the view is a window of a pooled buffer whose own header
	// is dropped: what was written through the view must be read back through
	// it after garbage collections and further use of the pool
	pool := t.PoolAlloc(signal.Allocator{Channels: ch, Length: 4, Capacity: 4})
	mkView := func() (dyn.Buf, dyn.Chan) {
		w := pool.Get().Slice(1, 3)
		return w, w.Channel(ch - 1)
	}
	win, view := mkView()
	vals := []dyn.Val{stamp(), stamp()}
	for i, v := range vals {
		view.SetSample(i, v)
	}
	for round := 0; round < 3; round++ {
		runtime.GC()
		runtime.Gosched()
		time.Sleep(300 * time.Microsecond)
		other := pool.Get()
		for i := 0; i < other.Len(); i++ {
			other.SetSample(i, stamp())
		}
		for i, v := range vals {
			if got := view.Sample(i); !got.Same(v) || !win.Sample(ch*i+ch-1).Same(v) {
				c.Violate(inst+"|view-of-pooled-window-after-gc", caseID, fmt.Sprintf("view of a window of a pooled buffer (root header dropped): wrote %v at index %d, after a garbage collection and another Get it reads %v", v, i, got), d)
				return
			}
		}
		runtime.KeepAlive(other)
	}
	c.Obs("views_of_dropped_pool_buffers_rechecked_after_gc", 1)
}

func c14Case(c *core.Ctx, t *dyn.TypeOps, ch, k, s, e int, caseID string) {
	a := mon.NewArena(t, ch, k, s+e)
	w := a.Window(s, e, 0, 0)
	inst := "Channel[" + t.Name + "]"
	detail := map[string]any{"type": t.Name, "channels": ch, "parent_frames": k, "window": []int{s, e}}
	length := e - s
	for cc := 0; cc < ch; cc++ {
		var view dyn.Chan
		if p, msg := core.Guard(func() { view = w.B.Channel(cc) }); p {
			c.Violate(inst+"|panic", caseID, "Channel("+itoa(cc)+") panicked: "+msg, detail)
			continue
		}
		c.Eval(1)
		if view.Channels() != 1 {
			c.Violate(inst+"|channels", caseID, fmt.Sprintf("view.Channels()=%d want 1", view.Channels()), detail)
		}
		if view.Length() != length || view.Capacity() != (k-s) {
			c.Violate(inst+"|shape", caseID, fmt.Sprintf("view Length/Capacity=%d/%d, parent window %d/%d", view.Length(), view.Capacity(), length, k-s), detail)
		}
		if length > 0 {
			c.Obs("views_with_samples", 1)
		}
		for i := 0; i < length; i++ {
			pos := ch*i + cc // the oracle's own arithmetic
			d := map[string]any{"type": t.Name, "channels": ch, "parent_frames": k, "window": []int{s, e}, "channel": cc, "index": i, "expected_position": pos}
			c.Eval(1)
			c.Distinct(core.NewHash().Str(t.Name).Int(ch).Int(k).Int(s).Int(e).Int(cc).Int(i).Sum())
			c.Sample("channel-view", d)
			// index query: the view reports the position of ITS channel for
			// index i, whatever is passed as the (nominally ignored) channel
			// argument of the method
			for arg := 0; arg < ch; arg++ {
				var bi int
				if p, msg := core.Guard(func() { bi = view.BufferIndex(arg, i) }); p {
					c.Violate(inst+"|panic", caseID, "BufferIndex panicked: "+msg, d)
				} else if bi != pos {
					c.Violate(inst+"|bufferindex", caseID, fmt.Sprintf("view of channel %d: BufferIndex(%d,%d)=%d, parent position is %d*%d+%d=%d", cc, arg, i, bi, ch, i, cc, pos), d)
				}
			}
			c.Obs("index_queries", 1)
			// read
			var got dyn.Val
			if p, msg := core.Guard(func() { got = view.Sample(i) }); p {
				c.Violate(inst+"|panic", caseID, "Sample panicked: "+msg, d)
			} else if want := a.Shadow[w.Off+pos]; !got.Same(want) {
				c.Violate(inst+"|read", caseID, fmt.Sprintf("view of channel %d of %d: Sample(%d)=%v, parent sample at position %d is %v", cc, ch, i, got, pos, want), d)
			}
			c.Obs("reads", 1)
			// write
			v := mon.Canary(t.TypeInfo, pos+i*7+cc, 555+i)
			switch (i + cc) % 7 { // value classes: zero, type bounds, non-finite floats
			case 3:
				v = t.FromInt(0)
			case 4:
				v = extremeVal(t.TypeInfo, false)
			case 5:
				v = extremeVal(t.TypeInfo, true)
			case 6:
				if t.Kind == dyn.KFloat {
					v = dyn.FloatVal(math.NaN())
				}
			case 2:
				if t.Kind == dyn.KFloat {
					// -0 over +0: first make the cell +0 through the parent
					w.B.RawAll().Set(pos, dyn.FloatVal(0))
					w.Expect(pos, dyn.FloatVal(0))
					v = dyn.FloatVal(math.Copysign(0, -1))
				}
			}
			if p, msg := core.Guard(func() { view.SetSample(i, v) }); p {
				c.Violate(inst+"|panic", caseID, "SetSample panicked: "+msg, d)
				continue
			}
			if cell := w.B.RawAt(pos); v.K == dyn.KFloat && math.IsNaN(v.F) && math.IsNaN(cell.F) {
				w.Expect(pos, cell) // a NaN was stored; its payload is not compared
			} else {
				w.Expect(pos, v)
			}
			if ps := a.Verify(); len(ps) > 0 {
				report(c, inst+"|write", caseID, ps, d)
				// resynchronise so one fault is not reported for every later step
				a = mon.NewArena(t, ch, k, s+e+i+1)
				w = a.Window(s, e, 0, 0)
				view = w.B.Channel(cc)
				continue
			}
			c.Obs("writes", 1)
			c.Obs("arena_cells_verified", int64(len(a.Shadow)))
			if p, msg := core.Guard(func() { got = view.Sample(i) }); p {
				c.Violate(inst+"|panic", caseID, "Sample panicked: "+msg, d)
			} else if !(got.Same(v) || (v.K == dyn.KFloat && math.IsNaN(v.F) && math.IsNaN(got.F))) {
				c.Violate(inst+"|readback", caseID, fmt.Sprintf("wrote %v through view index %d, read back %v", v, i, got), d)
			}
		}
	}
	if ps := a.Verify(); len(ps) > 0 {
		report(c, inst+"|final", caseID, ps, detail)
	}
}

// availableMemoryKiB reads MemAvailable from /proc/meminfo (0 when unknown).
func availableMemoryKiB() int64 {
	data, err := os.ReadFile("/proc/meminfo")
	if err != nil {
		return 0
	}
	for _, line := range strings.Split(string(data), "\n") {
		if strings.HasPrefix(line, "MemAvailable:") {
			f := strings.Fields(line)
			if len(f) >= 2 {
				n, _ := strconv.ParseInt(f[1], 10, 64)
				return n
			}
		}
	}
	return 0
}

func c14Huge(c *core.Ctx) {
	t := dyn.Types[0] // int8
	const ch = 2
	frames := 1<<30 + 4
	inst := "Channel[" + t.Name + "]"
	caseID := "beyond-2^31-samples"
	d := map[string]any{"type": t.Name, "channels": ch, "frames": frames}
	if p, msg := core.Guard(func() {
		b := t.Alloc(signal.Allocator{Channels: ch, Length: frames, Capacity: frames})
		for cc := 0; cc < ch; cc++ {
			view := b.Channel(cc)
			if view.Length() != frames || view.Capacity() != frames || view.Channels() != 1 {
				c.Violate(inst+"|shape", caseID, fmt.Sprintf("view of channel %d reports %d channels, length %d, capacity %d", cc, view.Channels(), view.Length(), view.Capacity()), d)
				return
			}
			for k, i := range []int{1<<30 - 2, 1<<30 - 1, 1 << 30, 1<<30 + 1, 1<<30 + 3} {
				pos := ch*i + cc
				c.Eval(1)
				c.Distinct(core.NewHash().Str(caseID).Int(cc).Int(i).Sum())
				if got := view.BufferIndex(0, i); got != pos {
					c.Violate(inst+"|index", caseID, fmt.Sprintf("view of channel %d: BufferIndex(%d) = %d, the parent's position is %d", cc, i, got, pos), d)
					return
				}
				v := t.FromInt(int64(1 + k + 10*cc))
				view.SetSample(i, v)
				if got := b.Sample(pos); !got.Same(v) {
					c.Violate(inst+"|write", caseID, fmt.Sprintf("wrote %v through the view of channel %d at index %d; the parent's position %d holds %v", v, cc, i, pos, got), d)
					return
				}
				for _, other := range []int{pos - 1, pos + 1, pos - ch, pos & (1<<31 - 1), pos & (1<<32 - 1) & ^(1 << 31)} {
					if other != pos && other >= 0 && other < ch*frames && !b.Sample(other).IsZero() && !c14HugeWritten[other] {
						c.Violate(inst+"|write-elsewhere", caseID, fmt.Sprintf("writing index %d of channel %d changed the parent's position %d", i, cc, other), d)
						return
					}
				}
				c14HugeWritten[pos] = true
				w2 := t.FromInt(int64(-(1 + k + 10*cc)))
				b.SetSample(pos, w2)
				if got := view.Sample(i); !got.Same(w2) {
					c.Violate(inst+"|read", caseID, fmt.Sprintf("the parent's position %d holds %v; the view of channel %d reads %v at index %d", pos, w2, cc, got, i), d)
					return
				}
				c.Obs("positions_at_and_beyond_2^31_checked", 1)
			}
		}
	}); p {
		c.Violate(inst+"|panic", caseID, "channel view access near position 2^31 panicked: "+msg, d)
	}
}

var c14HugeWritten = map[int]bool{}

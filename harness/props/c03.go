package props

import (
	"fmt"

	"pipelined.dev/signal"
	"verifharness/core"
	"verifharness/dyn"
	"verifharness/mon"
)

func init() {
	register(&Def{
		ID:    "C03",
		Level: "exploration",
		Rule: "every element type x channel counts 1..8 x destination (length,capacity) x source length classes {0, 1 frame, one frame short of the spare capacity, exact fit, one frame too many, far too many} x destination kind {standalone, window with spare capacity inside a larger stamped buffer watched by sibling views} x source kind {separate buffer, prefix / suffix / middle slice of the destination's own samples, an earlier window of the same storage, the destination itself}, plus seeded chains of 1..20 appends; " +
			"after every Append the reference model (old ++ source, length, capacity multiple of C and >= length, in place iff capacity sufficed, base address, fresh disjoint storage on growth, source unchanged) is compared over every live view and every storage through the hook; " +
			"distinct = distinct (type, C, destination shape, source kind, source length, step) tuples; non-trivial = source length > 0; " +
			"also: suffix and middle windows of the destination's own samples as sources",
		Assume: []string{"domain as stated by the property: equal channel counts, frame-aligned operands, sources not overlapping the destination's spare capacity unless the source is the destination",
			"the capacity chosen by a growing append and the initial contents of new spare capacity are adopted by the model after checking the stated constraints"},
		Plan: func(tier string) []Batch { return split("append", 8, 900) },
		Run:  runC03,
	})
}

type c03env struct {
	c    *core.Ctx
	t    *dyn.TypeOps
	w    *mon.World
	inst string
}

func stampAll(w *mon.World, b dyn.Buf) {
	all := b.RawAll()
	for i := 0; i < all.Len(); i++ {
		all.Set(i, w.NextStamp())
	}
}

// doAppend performs one monitored Append; returns false when the case must stop.
func (e *c03env) doAppend(dst, src *mon.View, caseID string, d map[string]any, step int) bool {
	c := e.c
	if !mon.AppendPre(dst, src) {
		c.Obs("skipped_outside_domain", 1)
		return true
	}
	c.Eval(1)
	n := src.M.Len
	grow := dst.M.Cap < dst.M.Len+n
	srcKind := "other"
	if src == dst {
		srcKind = "self"
	} else if src.M.St == dst.M.St {
		srcKind = "same-storage"
	}
	if n > 0 {
		c.Distinct(core.NewHash().Str(caseID).Int(step).Int(n).Str(srcKind).Sum())
	}
	if grow {
		c.Obs("growing_appends", 1)
		if e.t.GrowCap(dst.M.Len, dst.M.Cap, n)%dst.M.C != 0 {
			c.Obs("growth_raw_capacity_unaligned", 1)
		}
	} else {
		c.Obs("in_place_appends", 1)
		if n > 0 && e.w.Covering(dst.M.St, dst.M.Off+dst.M.Len) > 0 {
			c.Obs("in_place_seen_by_other_view", 1)
		}
	}
	c.Obs("src_"+srcKind, 1)
	dd := map[string]any{"case": d, "step": step, "dst": fmt.Sprintf("storage=%d off=%d len=%d cap=%d", dst.M.St.ID, dst.M.Off, dst.M.Len, dst.M.Cap),
		"src": fmt.Sprintf("%s storage=%d off=%d len=%d", srcKind, src.M.St.ID, src.M.Off, src.M.Len), "grows": grow}
	var ps []mon.Problem
	if p, msg := core.Guard(func() { ps = e.w.Append(dst, src) }); p {
		c.Violate(e.inst+"|panic|"+srcKind, caseID, fmt.Sprintf("Append panicked (%s source of %d samples, destination len=%d cap=%d): %s", srcKind, n, dst.M.Len, dst.M.Cap, msg), dd)
		return false
	}
	if len(ps) > 0 {
		report(c, e.inst, caseID, ps, dd)
		return false
	}
	if ps := e.w.CheckAll(); len(ps) > 0 {
		kind := "|in-place"
		if grow {
			kind = "|growth"
		}
		report(c, e.inst+kind, caseID, ps, dd)
		return false
	}
	c.Obs("world_checks", 1)
	return true
}

func runC03(c *core.Ctx) {
	chans := []int{1, 2, 3, 4, 5, 6, 7, 8}
	maxL := c.Pick(3, 6)
	maxK := c.Pick(5, 10)
	n := 0
	for _, t := range dyn.ElemTypes() {
		for _, ch := range chans {
			for l := 0; l <= maxL; l++ {
				for k := l; k <= maxK; k++ {
					for _, dstKind := range []string{"standalone", "window"} {
						n++
						if !c.Mine(n) {
							continue
						}
						spare := k - l
						ns := map[int]bool{0: true, 1: true, spare - 1: true, spare: true, spare + 1: true, spare + 5: true, 40: true}
						for sn := range ns {
							if sn < 0 {
								continue
							}
							for _, srcKind := range []string{"fresh", "prefix", "suffix", "middle", "earlier", "self"} {
								caseID := fmt.Sprintf("%s/C%d/L%d/K%d/%s/%s/n%d", t.Name, ch, l, k, dstKind, srcKind, sn)
								if !c.Want(caseID) {
									continue
								}
								c03Case(c, t, ch, l, k, dstKind, srcKind, sn, caseID)
							}
						}
					}
				}
			}
		}
	}
	// chains of appends, seeded
	rnd := c.Rand(3)
	for i := 0; i < c.Pick(400, 40000); i++ {
		caseID := fmt.Sprintf("chain/%d", i)
		if !c.Want(caseID) {
			continue
		}
		t := dyn.Types[rnd.Intn(dyn.NBuiltin)]
		ch := chans[rnd.Intn(len(chans))]
		w := mon.NewWorld(t)
		e := &c03env{c: c, t: t, w: w, inst: "Append[" + t.Name + "]"}
		k0 := rnd.Range(2, 24)
		rb := t.Alloc(signal.Allocator{Channels: ch, Length: k0, Capacity: k0})
		stampAll(w, rb)
		root := w.Adopt(rb, "root")
		s := rnd.Range(0, k0)
		en := rnd.Range(s, k0)
		dst := w.Slice(root, s, en, "dst")
		w.Slice(root, 0, k0, "whole")
		// a few more destinations of other sizes in the same world: storage that
		// one of them outgrows must never come back as the "new" storage of
		// another while views of it are alive
		dsts := []*mon.View{dst}
		for j := 0; j < rnd.Range(0, 3); j++ {
			kk := rnd.Range(1, 6)
			ob := t.Alloc(signal.Allocator{Channels: ch, Length: kk, Capacity: kk})
			stampAll(w, ob)
			ov := w.Adopt(ob, fmt.Sprintf("dst%d", j+2))
			w.Slice(ov, 0, kk, fmt.Sprintf("watch%d", j+2))
			dsts = append(dsts, ov)
		}
		d := map[string]any{"type": t.Name, "channels": ch, "root_frames": k0, "dst_window": []int{s, en}}
		steps := rnd.Range(1, 20)
		c.Sample("chain", d)
		for st := 0; st < steps; st++ {
			var src *mon.View
			switch rnd.Intn(5) {
			case 0:
				src = dst
			case 1:
				if dst.M.Len > 0 {
					src = w.Slice(dst, 0, rnd.Range(0, dst.M.Len/ch), "prefix")
				}
			case 2:
				if s > 0 && dst.M.St == root.M.St {
					a := rnd.Range(0, s)
					src = w.Slice(root, a, rnd.Range(a, s), "earlier")
				}
			}
			if src == nil {
				n := rnd.Range(0, 9)
				if rnd.Chance(1, 12) {
					n = rnd.Range(200, 1500) // long sources: paths that depend on the amount copied
					c.Obs("long_sources", 1)
				}
				sb := t.Alloc(signal.Allocator{Channels: ch, Length: n, Capacity: n + 3})
				stampAll(w, sb)
				src = w.Adopt(sb, "src")
			}
			target := dsts[rnd.Intn(len(dsts))]
			if src != dst && src.M.St == root.M.St && target != dst {
				target = dst // sources carved from the root are only valid for the window destination
			}
			if target != dst && src == dst {
				src = target // self-append of the chosen destination
			}
			if !e.doAppend(target, src, caseID, d, st) {
				break
			}
			if len(w.Views) > 16 {
				w.Drop(len(w.Views) - 1)
			}
		}
		c.Obs("chains", 1)
	}
	c.Floor("growing_appends", 200)
	c.Floor("in_place_appends", 200)
	c.Floor("growth_raw_capacity_unaligned", 20)
	c.Floor("in_place_seen_by_other_view", 50)
	c.Floor("src_self", 50)
}

func c03Case(c *core.Ctx, t *dyn.TypeOps, ch, l, k int, dstKind, srcKind string, sn int, caseID string) {
	w := mon.NewWorld(t)
	e := &c03env{c: c, t: t, w: w, inst: "Append[" + t.Name + "]"}
	d := map[string]any{"type": t.Name, "channels": ch, "dst_length": l, "dst_capacity": k, "dst_kind": dstKind, "src_kind": srcKind, "src_frames": sn}
	var dst, root *mon.View
	lead := 2 // frames of the root before the window
	if dstKind == "standalone" {
		b := t.Alloc(signal.Allocator{Channels: ch, Length: l, Capacity: k})
		stampAll(w, b)
		dst = w.Adopt(b, "dst")
	} else {
		rb := t.Alloc(signal.Allocator{Channels: ch, Length: lead + k, Capacity: lead + k})
		stampAll(w, rb)
		root = w.Adopt(rb, "root")
		dst = w.Slice(root, lead, lead+l, "dst")
		w.Slice(root, 0, lead+k, "sibling-whole")
		w.Slice(root, lead+l, lead+k, "sibling-spare")
	}
	var src *mon.View
	switch srcKind {
	case "fresh":
		sb := t.Alloc(signal.Allocator{Channels: ch, Length: sn, Capacity: sn + 1})
		stampAll(w, sb)
		src = w.Adopt(sb, "src")
	case "prefix":
		if sn > l {
			return
		}
		src = w.Slice(dst, 0, sn, "src-prefix")
	case "suffix":
		// the last sn frames of the destination's own samples (not from frame 0)
		if sn < 1 || sn >= l {
			return
		}
		src = w.Slice(dst, l-sn, l, "src-suffix")
	case "middle":
		if sn < 1 || sn+2 > l {
			return
		}
		src = w.Slice(dst, 1, 1+sn, "src-middle")
	case "earlier":
		if root == nil || sn > lead {
			return
		}
		src = w.Slice(root, 0, sn, "src-earlier")
	case "self":
		if sn != l {
			return
		}
		src = dst
	}
	c.Sample(dstKind+"/"+srcKind, d)
	if !e.doAppend(dst, src, caseID, d, 0) {
		return
	}
	// a second append of the same source exercises the state after the first
	e.doAppend(dst, src, caseID, d, 1)
}

package props

import (
	"fmt"

	"pipelined.dev/signal"
	"verifharness/core"
	"verifharness/dyn"
	"verifharness/mon"
)

func init() {
	register(&Def{
		ID:    "C15",
		Level: "exploration",
		Rule: "finite grid: {all 169 conversion instantiations, Append for 13 element types} x every ordered pair of different channel counts in 1..4; {ReadStriped, WriteStriped} x type pairs x channel counts 1..4 x slice counts 0..5 different from the channel count; PoolAllocator.Put x element types x allocator shapes x rejected-buffer kinds {later-frame slice, grown by Append, foreign allocator with larger / smaller capacity}; " +
			"every operand is a window of a stamped canary arena; the call must panic, and afterwards both arenas (whole parent capacity, through the hook), both shapes, every caller slice element and the pool (next Gets fresh, never the rejected object) must be unchanged; " +
			"distinct = distinct (entry point, instantiation, shape pair) tuples; all are non-trivial (non-empty operands with recognisable contents); " +
			"also: every conversion mismatch with equal total sample counts",
		Assume:    []string{"only panic / no panic is compared, not the message", "in the plain build sync.Pool returns a just-Put object to the same goroutine, so a rejected buffer that was pooled anyway would be handed out by the next Get"},
		Exhaustiv: "the mismatch grid described in the rule is enumerated completely in the thorough tier (quick: every entry point and element type, a third of the type pairs for the striped forms)",
		Plan:      func(tier string) []Batch { return split("grid", 4, 600) },
		Run:       runC15,
	})
}

func runC15(c *core.Ctx) {
	n := 0
	mustPanic := func(inst, caseID string, d map[string]any, f func()) bool {
		c.Eval(1)
		c.Distinct(core.NewHash().Str(inst).Str(caseID).Sum())
		p, _ := core.Guard(f)
		if !p {
			c.Violate(inst+"|no-panic", caseID, "shape mismatch was accepted (call returned normally)", d)
			return false
		}
		c.Obs("rejected_as_required", 1)
		return true
	}
	// ---- conversions and Append
	for _, cv := range dyn.AllConvs() {
		n++
		if !c.Mine(n) {
			continue
		}
		for a := 1; a <= 4; a++ {
			for b := 1; b <= 4; b++ {
				if a == b {
					continue
				}
				caseID := fmt.Sprintf("%s/%d-%d", cv.Name(), a, b)
				if !c.Want(caseID) {
					continue
				}
				as := mon.NewArena(cv.S, a, 5, a)
				ws := as.Window(1, 4, 0, 0)
				ad := mon.NewArena(cv.D, b, 5, b)
				wd := ad.Window(0, 3, 0, 0)
				d := map[string]any{"fn": cv.Name(), "src_channels": a, "dst_channels": b}
				bs, bd := mon.ShapeOf(ws.B), mon.ShapeOf(wd.B)
				mustPanic(cv.Name(), caseID, d, func() { cv.Call(ws.B, wd.B) })
				c15After(c, cv.Name(), caseID, d, as, ws, bs)
				c15After(c, cv.Name(), caseID, d, ad, wd, bd)
				c.Obs("conversion_mismatches", 1)
				c.Sample("conversion", d)
				// the same two channel counts with EQUAL total sample counts
				// (a channels x b frames against b channels x a frames)
				as2 := mon.NewArena(cv.S, a, b+2, a+b)
				ws2 := as2.Window(1, 1+b, 0, 0)
				ad2 := mon.NewArena(cv.D, b, a+2, a+b)
				wd2 := ad2.Window(0, a, 0, 0)
				d2 := map[string]any{"fn": cv.Name(), "src_channels": a, "dst_channels": b, "src_frames": b, "dst_frames": a, "equal_totals": true}
				bs2, bd2 := mon.ShapeOf(ws2.B), mon.ShapeOf(wd2.B)
				mustPanic(cv.Name(), caseID+"/equal-totals", d2, func() { cv.Call(ws2.B, wd2.B) })
				c15After(c, cv.Name(), caseID+"/equal-totals", d2, as2, ws2, bs2)
				c15After(c, cv.Name(), caseID+"/equal-totals", d2, ad2, wd2, bd2)
				c.Obs("conversion_mismatches_with_equal_total_sample_counts", 1)
			}
		}
	}
	for _, t := range dyn.ElemTypes() {
		n++
		if !c.Mine(n) {
			continue
		}
		for a := 1; a <= 4; a++ {
			for b := 1; b <= 4; b++ {
				if a == b {
					continue
				}
				for _, spare := range []bool{false, true} {
					caseID := fmt.Sprintf("Append[%s]/%d-%d/%v", t.Name, a, b, spare)
					if !c.Want(caseID) {
						continue
					}
					ad := mon.NewArena(t, a, 6, a)
					e := 6
					if spare {
						e = 3
					}
					wd := ad.Window(1, e, 0, 0)
					as := mon.NewArena(t, b, 4, b)
					ws := as.Window(0, 2, 0, 0)
					d := map[string]any{"fn": "Append[" + t.Name + "]", "dst_channels": a, "src_channels": b, "dst_has_spare_capacity": spare}
					bs, bd := mon.ShapeOf(ws.B), mon.ShapeOf(wd.B)
					mustPanic("Append["+t.Name+"]", caseID, d, func() { wd.B.Append(ws.B) })
					c15After(c, "Append["+t.Name+"]", caseID, d, as, ws, bs)
					c15After(c, "Append["+t.Name+"]", caseID, d, ad, wd, bd)
					c.Obs("append_mismatches", 1)
				}
			}
		}
	}
	// ---- striped forms
	for ai := 0; ai < dyn.NBuiltin; ai++ {
		for bi := 0; bi < dyn.NBuiltin; bi++ {
			n++
			if !c.Mine(n) {
				continue
			}
			if c.Quick() && ai != bi && (ai+bi)%3 != 0 {
				continue
			}
			p := dyn.Pairs[ai][bi]
			for ch := 1; ch <= 4; ch++ {
				for m := 0; m <= 5; m++ {
					if m == ch {
						continue
					}
					caseID := fmt.Sprintf("striped[%s,%s]/C%d/m%d", p.A.Name, p.B.Name, ch, m)
					if !c.Want(caseID) {
						continue
					}
					lens := make([]int, m)
					for i := range lens {
						lens[i] = 2 + i%2
					}
					// every third case: the surplus rows (or, with too few rows, the
					// last one) are nil, and so is the first row in some
					if (ai+bi+ch+m)%3 == 0 {
						for i := range lens {
							if i >= ch || i == m-1 {
								lens[i] = -1
							}
						}
						c.Obs("striped_mismatches_with_nil_rows", 1)
					} else if (ai+bi+ch+m)%3 == 1 && m > 0 {
						lens[0] = -1
					}
					d := map[string]any{"pair": []string{p.A.Name, p.B.Name}, "channels": ch, "slices": m}
					// ReadStriped: Buffer[A] -> [][]B
					{
						a := mon.NewArena(p.A, ch, 5, m)
						w := a.Window(1, 4, 0, 0)
						ss := p.B.MakeSS(lens)
						snap := c15FillSS(ss, p.B, 3)
						bsh := mon.ShapeOf(w.B)
						inst := "ReadStriped[" + p.A.Name + "," + p.B.Name + "]"
						mustPanic(inst, caseID, d, func() { p.ReadStriped(w.B, ss) })
						c15After(c, inst, caseID, d, a, w, bsh)
						c15CheckSS(c, inst, caseID, d, ss, snap)
					}
					// WriteStriped: [][]A -> Buffer[B]
					{
						a := mon.NewArena(p.B, ch, 5, m+1)
						w := a.Window(1, 4, 0, 0)
						ss := p.A.MakeSS(lens)
						snap := c15FillSS(ss, p.A, 4)
						bsh := mon.ShapeOf(w.B)
						inst := "WriteStriped[" + p.A.Name + "," + p.B.Name + "]"
						mustPanic(inst, caseID, d, func() { p.WriteStriped(ss, w.B) })
						c15After(c, inst, caseID, d, a, w, bsh)
						c15CheckSS(c, inst, caseID, d, ss, snap)
					}
					c.Obs("striped_mismatches", 2)
					if m == 0 {
						// no slices at all, passed as a nil outer slice
						{
							a := mon.NewArena(p.A, ch, 5, m+8)
							w := a.Window(1, 4, 0, 0)
							bsh := mon.ShapeOf(w.B)
							inst := "ReadStriped[" + p.A.Name + "," + p.B.Name + "]"
							mustPanic(inst, caseID+"/nil-outer-slice", d, func() { p.ReadStriped(w.B, p.B.MakeSS(nil)) })
							c15After(c, inst, caseID, d, a, w, bsh)
						}
						{
							a := mon.NewArena(p.B, ch, 5, m+9)
							w := a.Window(1, 4, 0, 0)
							bsh := mon.ShapeOf(w.B)
							inst := "WriteStriped[" + p.A.Name + "," + p.B.Name + "]"
							mustPanic(inst, caseID+"/nil-outer-slice", d, func() { p.WriteStriped(p.A.MakeSS(nil), w.B) })
							c15After(c, inst, caseID, d, a, w, bsh)
						}
						c.Obs("striped_mismatches_with_nil_outer_slice", 2)
					}
					// the same with an outer slice whose CAPACITY reaches the channel
					// count (rows carved from a longer [][]T): a reslice of the
					// argument must not make the call acceptable
					if m < ch {
						hidden := make([]int, ch-m+(ai+bi+m)%2) // capacity of the outer slice: exactly the channel count, or one more
						for i := range hidden {
							hidden[i] = 3
						}
						{
							a := mon.NewArena(p.A, ch, 5, m+2)
							w := a.Window(1, 4, 0, 0)
							vis, all := p.B.MakeSSHidden(lens, hidden)
							snap := c15FillSS(all, p.B, 6)
							bsh := mon.ShapeOf(w.B)
							inst := "ReadStriped[" + p.A.Name + "," + p.B.Name + "]"
							mustPanic(inst, caseID+"/hidden-capacity", d, func() { p.ReadStriped(w.B, vis) })
							c15After(c, inst, caseID, d, a, w, bsh)
							c15CheckSS(c, inst, caseID, d, all, snap)
						}
						{
							a := mon.NewArena(p.B, ch, 5, m+3)
							w := a.Window(1, 4, 0, 0)
							vis, all := p.A.MakeSSHidden(lens, hidden)
							snap := c15FillSS(all, p.A, 7)
							bsh := mon.ShapeOf(w.B)
							inst := "WriteStriped[" + p.A.Name + "," + p.B.Name + "]"
							mustPanic(inst, caseID+"/hidden-capacity", d, func() { p.WriteStriped(vis, w.B) })
							c15After(c, inst, caseID, d, a, w, bsh)
							c15CheckSS(c, inst, caseID, d, all, snap)
						}
						c.Obs("striped_mismatches_with_hidden_outer_capacity", 2)
					}
				}
			}
		}
	}
	// ---- pool Put
	for _, t := range dyn.ElemTypes() {
		n++
		if !c.Mine(n) {
			continue
		}
		for _, al := range []signal.Allocator{{Channels: 1, Length: 0, Capacity: 4}, {Channels: 2, Length: 2, Capacity: 4}, {Channels: 3, Length: 3, Capacity: 3}, {Channels: 4, Length: 1, Capacity: 6}} {
			kinds := []string{"later-frame-slice", "grown", "foreign-larger", "foreign-smaller", "foreign-empty", "foreign-more-channels-same-frames", "foreign-fewer-channels-same-frames"}
			// every total capacity within two frames of the pool's, as a mono buffer
			for delta := -2 * al.Channels; delta <= 2*al.Channels; delta++ {
				if delta != 0 && al.Channels*al.Capacity+delta >= 0 {
					kinds = append(kinds, fmt.Sprintf("foreign-mono-total%+d", delta))
				}
			}
			for _, kind := range kinds {
				caseID := fmt.Sprintf("Put[%s]/%d-%d-%d/%s", t.Name, al.Channels, al.Length, al.Capacity, kind)
				if !c.Want(caseID) {
					continue
				}
				inst := "Put[" + t.Name + "]"
				d := map[string]any{"fn": inst, "allocator": []int{al.Channels, al.Length, al.Capacity}, "rejected_buffer": kind}
				pool := t.PoolAlloc(al)
				var rej dyn.Buf
				var keep dyn.Buf // a legitimately checked-out buffer that shares storage with rej
				switch kind {
				case "later-frame-slice":
					keep = pool.Get()
					rej = keep.Slice(1, al.Capacity)
				case "grown":
					rej = pool.Get()
					extra := t.Alloc(signal.Allocator{Channels: al.Channels, Length: al.Capacity + 1, Capacity: al.Capacity + 1})
					rej.Append(extra)
				case "foreign-larger":
					rej = t.Alloc(signal.Allocator{Channels: al.Channels, Length: al.Capacity + 2, Capacity: al.Capacity + 2})
				case "foreign-smaller":
					rej = t.Alloc(signal.Allocator{Channels: al.Channels, Length: al.Capacity - 1, Capacity: al.Capacity - 1})
				case "foreign-empty":
					rej = t.Alloc(signal.Allocator{Channels: al.Channels})
				case "foreign-more-channels-same-frames":
					// same per-channel capacity, different total capacity
					rej = t.Alloc(signal.Allocator{Channels: al.Channels * 2, Length: al.Length, Capacity: al.Capacity})
				case "foreign-fewer-channels-same-frames":
					if al.Channels < 2 {
						continue
					}
					rej = t.Alloc(signal.Allocator{Channels: al.Channels - 1, Length: al.Length, Capacity: al.Capacity})
				default:
					var delta int
					fmt.Sscanf(kind, "foreign-mono-total%d", &delta)
					tot := al.Channels*al.Capacity + delta
					rej = t.Alloc(signal.Allocator{Channels: 1, Length: tot / 2, Capacity: tot})
					c.Obs("put_foreign_totals_within_two_frames", 1)
				}
				// recognisable contents over the whole capacity of the rejected buffer
				all := rej.RawAll()
				var snap []dyn.Val
				for i := 0; i < all.Len(); i++ {
					all.Set(i, mon.Canary(t.TypeInfo, i, 31))
					snap = append(snap, all.Get(i))
				}
				before := mon.ShapeOf(rej)
				if !mustPanic(inst, caseID, d, func() { pool.Put(rej) }) {
					// fallthrough: still look at what happened
				}
				if after := mon.ShapeOf(rej); after != before {
					c.Violate(inst+"|modified", caseID, fmt.Sprintf("rejected buffer changed shape from %v to %v", before, after), d)
				} else {
					for i, w := range snap {
						if g := rej.RawAt(i); !g.Same(w) {
							c.Violate(inst+"|modified", caseID, fmt.Sprintf("rejected buffer position %d changed from %v to %v", i, w, g), d)
							break
						}
					}
				}
				for gi := 0; gi < 4; gi++ {
					g := pool.Get()
					if g.Same(rej) || (rej.RawCap() > 0 && g.RawCap() > 0 && g.RawBase() < rej.RawBase()+uintptr(rej.RawCap()*t.SizeOf) && rej.RawBase() < g.RawBase()+uintptr(g.RawCap()*t.SizeOf)) {
						c.Violate(inst+"|pool-modified", caseID, fmt.Sprintf("Get #%d after the rejected Put returned the rejected buffer's storage", gi), d)
						break
					}
					if g.Channels() != al.Channels || g.Length() != al.Length || g.Capacity() != al.Capacity {
						c.Violate(inst+"|pool-modified", caseID, fmt.Sprintf("Get #%d after the rejected Put has shape %v", gi, mon.ShapeOf(g)), d)
						break
					}
					nz := false
					for i := 0; i < g.RawCap(); i++ {
						nz = nz || !g.RawAt(i).IsZero()
					}
					if nz {
						c.Violate(inst+"|pool-modified", caseID, fmt.Sprintf("Get #%d after the rejected Put is not zeroed", gi), d)
						break
					}
				}
				_ = keep
				c.Obs("put_mismatches", 1)
				c.Sample("put", d)
			}
		}
	}
	if !c.Quick() {
		c.R.Exhaustive["mismatch-grid"] = true
		c.R.FullyExhaustive = true
	}
	c.Floor("conversion_mismatches", 169*12)
	c.Floor("append_mismatches", 13*24)
	c.Floor("put_mismatches", 13*4*6)
	c.Floor("striped_mismatches", 1000)
	c.Floor("striped_mismatches_with_hidden_outer_capacity", 200)
}

func c15FillSS(ss dyn.SS, t *dyn.TypeOps, salt int) [][]dyn.Val {
	var snap [][]dyn.Val
	for ci := 0; ci < ss.N(); ci++ {
		var row []dyn.Val
		s := ss.At(ci)
		for i := 0; i < s.Len(); i++ {
			s.Set(i, mon.Canary(t.TypeInfo, i, salt+ci))
			row = append(row, s.Get(i))
		}
		snap = append(snap, row)
	}
	return snap
}

func c15CheckSS(c *core.Ctx, inst, caseID string, d map[string]any, ss dyn.SS, snap [][]dyn.Val) {
	if ss.N() != len(snap) {
		c.Violate(inst+"|modified", caseID, "number of caller slices changed", d)
		return
	}
	for ci := range snap {
		s := ss.At(ci)
		if s.Len() != len(snap[ci]) {
			c.Violate(inst+"|modified", caseID, "caller slice length changed", d)
			return
		}
		for i, w := range snap[ci] {
			if !s.Get(i).Same(w) {
				c.Violate(inst+"|modified", caseID, fmt.Sprintf("caller slice [%d][%d] changed from %v to %v before the panic", ci, i, w, s.Get(i)), d)
				return
			}
		}
	}
}

func c15After(c *core.Ctx, inst, caseID string, d map[string]any, a *mon.Arena, w *mon.Win, before mon.Shape) {
	if after := mon.ShapeOf(w.B); after != before {
		c.Violate(inst+"|modified", caseID, fmt.Sprintf("operand shape changed from %v to %v before the panic", before, after), d)
	}
	if ps := a.Verify(); len(ps) > 0 {
		report(c, inst+"|modified", caseID, ps, d)
	}
}

// Package props holds one monitor per property.
package props

import (
	"sort"

	"verifharness/core"
)

// Batch is one child process of a check.
type Batch struct {
	Name      string            `json:"name"`
	Mode      string            `json:"mode"`
	Batch     int               `json:"batch"`
	NBatch    int               `json:"nbatch"`
	Race      bool              `json:"race"`       // run the -race build
	Env       map[string]string `json:"env"`        // e.g. GOMAXPROCS
	WatchdogS int               `json:"watchdog_s"` // generous; firing = inconclusive
	Weight    int               `json:"weight"`     // cores it will keep busy
	Args      map[string]string `json:"args"`
	// ExpectRace marks the self-test child whose race report is *required*.
	ExpectRace bool `json:"expect_race"`
}

// Def is the registration of one property.
type Def struct {
	ID        string
	Plan      func(tier string) []Batch
	Run       func(c *core.Ctx)
	Level     string // evidence level
	Rule      string // how cases are generated and what makes one distinct/non-trivial
	Assume    []string
	Exhaustiv string // description of the part that is exhaustive (if any)
}

var registry = map[string]*Def{}

func register(d *Def) { registry[d.ID] = d }

func Get(id string) *Def { return registry[id] }

func IDs() []string {
	var ids []string
	for k := range registry {
		ids = append(ids, k)
	}
	sort.Strings(ids)
	return ids
}

// split makes n plain batches of one mode.
func split(mode string, n, watchdog int) []Batch {
	var bs []Batch
	for i := 0; i < n; i++ {
		bs = append(bs, Batch{Name: mode + "-" + itoa(i), Mode: mode, Batch: i, NBatch: n, WatchdogS: watchdog, Weight: 1})
	}
	return bs
}

func itoa(i int) string {
	if i == 0 {
		return "0"
	}
	s := ""
	neg := i < 0
	if neg {
		i = -i
	}
	for i > 0 {
		s = string(rune('0'+i%10)) + s
		i /= 10
	}
	if neg {
		s = "-" + s
	}
	return s
}

package props

import (
	"fmt"

	"verifharness/core"
	"verifharness/dyn"
)

func isFixed(t *dyn.TypeOps) bool { return t.Kind != dyn.KFloat }

func fixedToFixed(cv *dyn.ConvOp) bool { return isFixed(cv.S) && isFixed(cv.D) }

func fixedPlan(tier string) []Batch {
	bs := split("scan", 8, 900)
	if tier == "thorough" {
		bs = split("scan", 16, 3600)
	}
	// plus: fixed inputs through the property's instantiations in three fresh
	// processes that visit them in different orders (no dependence on history)
	return append(bs, digestBatches()...)
}

func init() {
	register(&Def{
		ID:    "C06",
		Level: "exploration",
		Rule: "all 121 signed/unsigned element-type pairs of the four fixed->fixed conversions; source codes enumerated in ascending amplitude: every value of 8- and 16-bit source types in every tier, every value of 32-bit source types in the thorough tier (22 pairs x 2^32, split into segments stitched by one overlapping code), boundary-dense (+-3 around +-2^k, 1.5*2^k, bounds, dense runs at both ends and around zero) + seeded random values for 64-bit sources (and for 32-bit sources in the quick tier); " +
			"oracle: result amplitudes non-decreasing along the enumeration (= the full pairwise order relation, by transitivity), lowest->lowest, highest->highest, zero-amplitude->zero-amplitude; " +
			"distinct = (instantiation, source code) pairs, each enumerated exactly once; every pair is non-trivial (one library conversion compared with its predecessor in amplitude order); " +
			"also: conversions into a shorter destination with spare capacity first, sources last written as a whole by another conversion and then filled through a second view",
		Assume:    []string{"amplitude of an unsigned code is code - 2^(depth-1); int, uint and uintptr are 64-bit on this platform"},
		Exhaustiv: "8- and 16-bit sources always, 32-bit sources in the thorough tier; 64-bit sources are sampled",
		Plan:      fixedPlan,
		Run:       func(c *core.Ctx) { runFixed(c, false) },
	})
	register(&Def{
		ID:    "C07",
		Level: "exploration",
		Rule: "same enumeration as C06 (all 121 pairs; 8/16-bit sources complete, 32-bit complete in the thorough tier, 64-bit boundary-dense + seeded random); oracle in exact integer arithmetic: narrowing by d bits gives floor(a/2^d) or ceil(a/2^d); equal depth is the identity on amplitudes; every widening pair S->D composed with the library's conversion D->S of the matching family returns the original code; " +
			"distinct = (instantiation, source code) pairs enumerated once; every pair is non-trivial",
		Assume:    []string{"amplitude of an unsigned code is code - 2^(depth-1); int, uint and uintptr are 64-bit on this platform"},
		Exhaustiv: "8- and 16-bit sources always, 32-bit sources in the thorough tier; 64-bit sources are sampled",
		Plan:      fixedPlan,
		Run:       func(c *core.Ctx) { runFixed(c, true) },
	})
}

// inverseConv finds the instantiation that converts D back to S.
func inverseConv(cv *dyn.ConvOp) *dyn.ConvOp {
	for _, o := range dyn.AllConvs() {
		if o.S == cv.D && o.D == cv.S {
			return o
		}
	}
	return nil
}

func runFixed(c *core.Ctx, accuracy bool) {
	if isDigestMode(c.Mode) {
		convDigests(c, fixedToFixed)
		return
	}
	tasks := fixedTasks(fixedToFixed, !c.Quick(), 16)
	wholeDone := map[string]bool{}
	for ti, t := range tasks {
		if !c.Mine(ti) {
			continue
		}
		cv := t.cv
		name := cv.Name()
		caseID := fmt.Sprintf("%s/%d-%d", name, t.lo, t.hi)
		if !c.Want(caseID) {
			continue
		}
		sc := newScannerHow(cv, 1+ti%3, ti/3)
		var back *scanner
		st, dt := cv.S.TypeInfo, cv.D.TypeInfo
		preludeCheck(c, sc, name, caseID, rawOfAmp(st, 0), rawOfAmp(st, minAmp(st.Bits)), rawOfAmp(st, maxAmp(st.Bits)),
			func(raw uint64) bool { return amp(dt, raw) == 0 })
		chunkNo := 0
		if ti%4 == 0 || !c.Quick() {
			if idx, long, short := sc.longCheck([]uint64{rawOfAmp(st, 0), rawOfAmp(st, minAmp(st.Bits)), rawOfAmp(st, maxAmp(st.Bits)), rawOfAmp(st, 1), rawOfAmp(st, -1), rawOfAmp(st, maxAmp(st.Bits)/3)}); idx >= 0 {
				c.Violate(name+"|buffer-size-dependence", caseID, fmt.Sprintf("position %d of a %d-sample buffer converted in one call gives carrier %#x, the same sample converted in a %d-sample chunk gives %#x", idx, longN, long, chunkN, short),
					map[string]any{"fn": name, "samples": longN, "position": idx, "channels": sc.ch})
			}
			c.Obs("conversions_of_more_than_65536_samples_in_one_call", 1)
		}
		widening := dt.Bits > st.Bits
		if accuracy && widening {
			if inv := inverseConv(cv); inv != nil {
				back = newScanner(inv)
			}
		}
		d := st.Bits - dt.Bits
		var prevSrc, prevDst int64
		have := false
		first := true
		viol := 0
		var count, distinct int64
		var lastRaw uint64
		haveRaw := false
		t.forEachChunk(c, func(in []uint64) {
			if viol > 20 {
				return
			}
			out := sc.conv(in)
			if sc.panicked != "" {
				if viol < 1000 {
					c.Violate(name+"|panic", caseID, "the conversion panicked: "+sc.panicked, map[string]any{"fn": name, "buffer_len": len(in), "channels": sc.ch})
				}
				viol = 1000
				return
			}
			if chunkNo++; t.list || chunkNo%8 == 1 {
				if idx, got := sc.orderCheck(in, out); idx >= 0 {
					viol++
					c.Violate(name+"|order-dependence", caseID, fmt.Sprintf("source amplitude %d converts to amplitude %d in an ascending buffer and to %d when the buffer is reversed", amp(st, in[idx]), amp(dt, out[idx]), amp(dt, got)),
						map[string]any{"fn": name, "source_amplitude": amp(st, in[idx]), "position": idx, "buffer_len": len(in), "channels": sc.ch})
				}
				c.Obs("chunks_also_converted_in_reverse_order", 1)
				if idx, got := sc.windowsCheck(in, out); idx >= 0 {
					viol++
					c.Violate(name+"|window-dependence", caseID, fmt.Sprintf("position %d converts to amplitude %d in one call and to amplitude %d when the same samples are converted in three pieces through pairs of Slice windows, last piece first", idx, amp(dt, out[idx]), amp(dt, got)),
						map[string]any{"fn": name, "position": idx, "buffer_len": len(in), "channels": sc.ch})
				}
				c.Obs("chunks_also_converted_piecewise_through_windows_last_piece_first", 1)
			}
			var rt []uint64
			if back != nil {
				tmp := append([]uint64(nil), out...)
				rt = back.conv(tmp)
			}
			for i, raw := range in {
				sa := amp(st, raw)
				da := amp(dt, out[i])
				overlap := first && i == 0 && t.full && t.lo > 0
				if !overlap {
					count++
					if !haveRaw || raw != lastRaw {
						distinct++
					}
				}
				lastRaw, haveRaw = raw, true
				det := func() map[string]any {
					return map[string]any{"fn": name, "source_code": dyn.Val{K: st.Kind, I: int64(raw), U: raw}, "source_amplitude": sa, "result_amplitude": da}
				}
				if !accuracy {
					if have && da < prevDst {
						viol++
						c.Violate(name+"|order", caseID, fmt.Sprintf("amplitude %d -> %d but the lower amplitude %d -> %d (order inverted)", sa, da, prevSrc, prevDst), det())
					}
					switch sa {
					case minAmp(st.Bits):
						c.Obs("level_lowest_checked", 1)
						if da != minAmp(dt.Bits) {
							viol++
							c.Violate(name+"|level-lowest", caseID, fmt.Sprintf("lowest code (amplitude %d) -> amplitude %d, lowest of the destination is %d", sa, da, minAmp(dt.Bits)), det())
						}
					case maxAmp(st.Bits):
						c.Obs("level_highest_checked", 1)
						if da != maxAmp(dt.Bits) {
							viol++
							c.Violate(name+"|level-highest", caseID, fmt.Sprintf("highest code (amplitude %d) -> amplitude %d, highest of the destination is %d", sa, da, maxAmp(dt.Bits)), det())
						}
					case 0:
						c.Obs("level_zero_checked", 1)
						if da != 0 {
							viol++
							c.Violate(name+"|level-zero", caseID, fmt.Sprintf("zero-amplitude code -> amplitude %d", da), det())
						}
					}
				} else {
					switch {
					case d > 0:
						fl := sa >> uint(d)
						cl := fl
						if sa&(int64(1)<<uint(d)-1) != 0 {
							cl++
						}
						if da != fl && da != cl {
							viol++
							c.Violate(name+"|narrowing", caseID, fmt.Sprintf("amplitude %d / 2^%d lies between %d and %d, result amplitude is %d", sa, d, fl, cl, da), det())
						}
						if fl != cl {
							c.Obs("narrowing_inexact_quotients", 1)
						}
					case d == 0:
						if da != sa {
							viol++
							c.Violate(name+"|same-depth", caseID, fmt.Sprintf("amplitude %d became %d at equal depth", sa, da), det())
						}
					default:
						if rt != nil && rt[i] != raw {
							viol++
							c.Violate(name+"|roundtrip", caseID, fmt.Sprintf("code with amplitude %d widened to amplitude %d and narrowed back with %s gives amplitude %d", sa, da, back.cv.Name(), amp(st, rt[i])), det())
						}
					}
				}
				if count == 1000 || (t.rep == 0 && count == 77) {
					c.Sample("conversion", map[string]any{"fn": name, "source_amplitude": sa, "result_amplitude": da, "previous": []int64{prevSrc, prevDst}})
				}
				prevSrc, prevDst, have = sa, da, true
			}
			first = false
		})
		c.Eval(count)
		if t.rep > 1 {
			distinct = 0 // the same codes are already counted by the plain task
			c.Obs("values_in_long_buffers_of_repeated_codes", count)
		}
		c.DistinctN(distinct)
		kind := "list"
		if t.full {
			kind = fmt.Sprintf("full%d", st.Bits)
		}
		c.Obs("values_"+kind, count)
		switch {
		case d > 0:
			c.Obs("tasks_narrowing", 1)
		case d == 0:
			c.Obs("tasks_same_depth", 1)
		default:
			c.Obs("tasks_widening", 1)
		}
		if t.whole || t.list {
			wholeDone[name] = true
		}
		c.Obs("tasks", 1)
		c.Sample("task", map[string]any{"fn": name, "enumeration": kind, "index_range": []uint64{t.lo, t.hi}, "values": count})
	}
	flushScanObs(c)
	c.Floor("tasks", int64(len(tasks)))
	if accuracy {
		c.Floor("narrowing_inexact_quotients", 1000)
	} else {
		c.Floor("level_zero_checked", 121)
		c.Floor("level_lowest_checked", 121)
		c.Floor("level_highest_checked", 121)
	}
	c.R.Exhaustive["8-and-16-bit-sources"] = true
	if !c.Quick() {
		c.R.Exhaustive["32-bit-sources"] = true
	}
}

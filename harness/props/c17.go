package props

import (
	"fmt"
	"math"
	"math/big"
	"sort"
	"time"

	"pipelined.dev/signal"
	"verifharness/core"
)

func init() {
	register(&Def{
		ID:    "C17",
		Level: "exploration",
		Rule: "standard audio rates 8 kHz..5.6448 MHz, seeded integer rates in 1..10^6 and fractional rates x event counts (dense from 0, dense below f*86400, and 'tie hunters': counts whose exact duration has a fractional part closest to 1/2, found by integer modular search, also shifted by multiples of f) and durations up to 24 h; " +
			"each result compared with the exact rational (big.Rat on the float64's exact value) within 0.5 + 3*2^-53*|exact|; monotonicity on sorted arguments; Events(Duration(n))=n for rates <= 1 MHz and spans <= 24 h; " +
			"distinct = distinct (rate, direction, argument) tuples; non-trivial = exact result has a non-zero fractional part (rounding is actually exercised); " +
			"also: round rates (powers of two up to 2^22 and neighbours, powers of ten, multiples of 44100 and 48000)",
		Assume: []string{"the error allowance 0.5 + 3*2^-53*|exact| is derived from the two float64 roundings in the implementation's formula", "results at exact .5 ties may round either way"},
		Plan:   func(tier string) []Batch { return split("rates", 8, 900) },
		Run:    runC17,
	})
}

var c17Standard = []float64{8000, 11025, 16000, 22050, 32000, 44100, 48000, 88200, 96000, 176400, 192000, 352800, 384000, 2822400, 5644800}
var c17Fractional = []float64{44100.5, 1e6 / 3, 29.97, 0.5, 1.0 / 3, 23.976, 59.94, 999999.999, 48000 * 1.001, 48000 / 1.001, 12345.6789, 2.5e5 + 0.125,
	// short decimals (their float64 value lies just above or just below the decimal)
	0.1, 0.2, 0.3, 0.7, 1.1, 2.2, 3.3, 7.7, 44100.1, 44100.9, 48000.3, 96000.7, 999999.9, 0.01, 100.01}

var (
	ratNano = big.NewRat(1_000_000_000, 1)
	ratHalf = big.NewRat(1, 2)
	ratTol  = new(big.Rat).SetFrac(big.NewInt(3), new(big.Int).Lsh(big.NewInt(1), 53))
)

// within reports |got-exact| <= 0.5 + 3*2^-53*|exact|.
func c17Within(got int64, exact *big.Rat) (bool, *big.Rat) {
	diff := new(big.Rat).Sub(new(big.Rat).SetInt64(got), exact)
	diff.Abs(diff)
	allow := new(big.Rat).Mul(ratTol, new(big.Rat).Abs(exact))
	allow.Add(allow, ratHalf)
	return diff.Cmp(allow) <= 0, diff
}

func c17TieHunters(f int64, limit int64, keep int) []int64 {
	// counts n < limit with (1e9*n mod f) closest to f/2
	type cand struct {
		n    int64
		dist int64
	}
	var best []cand
	m := int64(1_000_000_000) % f
	var r int64
	worst := int64(1) << 62
	for n := int64(0); n < limit; n++ {
		dist := 2*r - f
		if dist < 0 {
			dist = -dist
		}
		if len(best) < keep || dist < worst {
			best = append(best, cand{n, dist})
			sort.Slice(best, func(i, j int) bool { return best[i].dist < best[j].dist })
			if len(best) > keep {
				best = best[:keep]
			}
			worst = best[len(best)-1].dist
		}
		r += m
		if r >= f {
			r -= f
		}
	}
	out := make([]int64, len(best))
	for i, b := range best {
		out[i] = b.n
	}
	return out
}

func runC17(c *core.Ctx) {
	type rate struct {
		f       float64
		integer bool
		std     bool
	}
	var rates []rate
	for _, f := range c17Standard {
		rates = append(rates, rate{f, true, true})
	}
	for _, f := range c17Fractional {
		rates = append(rates, rate{f, false, false})
	}
	rr := core.NewRand(c.Seed, core.HashStr("C17-rates"))
	for i := 0; i < c.Pick(400, 20000); i++ {
		var f int64
		switch i % 4 {
		case 0:
			f = int64(rr.Range(1, 1000))
		case 1:
			f = int64(rr.Range(1000, 100000))
		default:
			f = int64(rr.Range(100000, 1000000))
		}
		rates = append(rates, rate{float64(f), true, false})
	}
	rates = append(rates, rate{1, true, false}, rate{2, true, false}, rate{3, true, false}, rate{7, true, false}, rate{999983, true, false}, rate{1000000, true, false})
	// "round" rates: powers of two and their neighbours, powers of ten, and the
	// multiples of the two audio base rates up to the DSD range
	for k := 2; k <= 22; k++ {
		rates = append(rates, rate{float64(int64(1) << k), true, false})
		if k%4 == 3 {
			rates = append(rates, rate{float64(int64(1)<<k - 1), true, false}, rate{float64(int64(1)<<k + 1), true, false})
		}
	}
	for _, f := range []float64{10, 100, 1000, 10000, 100000} {
		rates = append(rates, rate{f, true, false})
	}
	for _, base := range []float64{44100, 48000} {
		for _, m := range []float64{3, 5, 6, 10, 12, 16, 24, 32, 48, 100} {
			rates = append(rates, rate{base * m, true, false})
		}
	}

	for ri, rt := range rates {
		if !c.Mine(ri) {
			continue
		}
		caseID := fmt.Sprintf("rate%v", rt.f)
		if !c.Want(caseID) {
			continue
		}
		f := signal.Frequency(rt.f)
		fr := new(big.Rat)
		fr.SetFloat64(rt.f)
		r := c.Rand(uint64(ri))
		day := int64(rt.f * 86400)
		// ---- event counts
		var ns []int64
		dense := int64(c.Pick(300, 3000))
		if rt.std {
			dense = int64(c.Pick(3000, 100000))
		}
		for n := int64(0); n <= dense; n++ {
			ns = append(ns, n)
		}
		for i := int64(0); i < dense/2 && day-i >= 0; i++ {
			ns = append(ns, day-i)
		}
		// counts next to a whole number of seconds (n/f close to an integer)
		for _, k := range []int64{1, 2, 3, 5, 7, 10, 11, 20, 30, 50, 60, 100, 600, 1000, 3600, 36000, 86400} {
			x := float64(k) * rt.f
			for _, n := range []int64{int64(math.Floor(x)), int64(math.Ceil(x)), int64(math.Round(x))} {
				for dd := int64(-1); dd <= 1; dd++ {
					if n+dd >= 0 && n+dd <= day {
						ns = append(ns, n+dd)
					}
				}
			}
		}
		if rt.integer {
			fi := int64(rt.f)
			lim := int64(c.Pick(3000, 30000))
			if rt.std {
				lim = fi
				if c.Quick() && lim > 400000 {
					lim = 400000
				}
			}
			if lim > fi {
				lim = fi
			}
			th := c17TieHunters(fi, lim, 12)
			c.Obs("tie_hunter_counts", int64(len(th)))
			for _, n := range th {
				ns = append(ns, n)
				for _, k := range []int64{1, 59, 3600, 86399} {
					if n+k*fi <= day {
						ns = append(ns, n+k*fi)
					}
				}
			}
		}
		for i := 0; i < c.Pick(200, 2000); i++ {
			if day > 0 {
				ns = append(ns, int64(r.Uint64()%uint64(day+1)))
			}
		}
		sort.Slice(ns, func(i, j int) bool { return ns[i] < ns[j] })
		var prevD time.Duration
		var prevN int64 = -1
		for _, n := range ns {
			if n == prevN {
				continue
			}
			c.Eval(1)
			got := f.Duration(int(n))
			exact := new(big.Rat).Mul(ratNano, new(big.Rat).SetInt64(n))
			exact.Quo(exact, fr)
			d := map[string]any{"frequency": rt.f, "events": n}
			sig := core.NewHash().Str("D").U64(uint64(ri)).U64(uint64(n)).Sum()
			if !exact.IsInt() {
				c.Distinct(sig)
				c.Obs("durations_with_rounding", 1)
			}
			ok, diff := c17Within(int64(got), exact)
			if !ok {
				c.Violate("Duration|error", caseID, fmt.Sprintf("Frequency(%v).Duration(%d)=%dns, exact %s ns, off by %s", rt.f, n, int64(got), exact.FloatString(4), diff.FloatString(4)), d)
			}
			if prevN >= 0 && got < prevD {
				c.Violate("Duration|order", caseID, fmt.Sprintf("Frequency(%v): Duration(%d)=%d < Duration(%d)=%d", rt.f, n, int64(got), prevN, int64(prevD)), d)
			}
			// round trip
			if rt.f <= 1e6 && n <= day {
				c.Eval(1)
				back := f.Events(got)
				c.Obs("round_trips", 1)
				if int64(back) != n {
					c.Violate("roundtrip|count", caseID, fmt.Sprintf("Frequency(%v): Events(Duration(%d)=%dns)=%d", rt.f, n, int64(got), back), d)
				}
			}
			if n == ns[len(ns)/2] {
				c.Sample("duration", map[string]any{"frequency": rt.f, "events": n, "duration_ns": int64(got), "exact_ns": exact.FloatString(3)})
			}
			prevD, prevN = got, n
		}
		// ---- durations
		var ds []int64
		for i := int64(0); i <= dense; i++ {
			ds = append(ds, i)
			ds = append(ds, 86400_000_000_000-i)
		}
		for i := 0; i < c.Pick(300, 3000); i++ {
			ds = append(ds, int64(r.Uint64()%86400_000_000_001))
			ds = append(ds, int64(r.Uint64()%uint64(1+r.Intn(1_000_000_000))))
		}
		if rt.integer {
			// durations where f*d/1e9 is closest to a half: d = (2k+1)*1e9/(2f) +- 1
			fi := int64(rt.f)
			for k := int64(0); k < int64(c.Pick(50, 500)); k++ {
				base := (2*k + 1) * 1_000_000_000 / (2 * fi)
				for dd := int64(-1); dd <= 1; dd++ {
					if base+dd >= 0 && base+dd <= 86400_000_000_000 {
						ds = append(ds, base+dd)
					}
				}
			}
		}
		sort.Slice(ds, func(i, j int) bool { return ds[i] < ds[j] })
		var prevE int
		var prevDur int64 = -1
		for _, dv := range ds {
			if dv == prevDur {
				continue
			}
			c.Eval(1)
			got := f.Events(time.Duration(dv))
			exact := new(big.Rat).Mul(fr, new(big.Rat).SetInt64(dv))
			exact.Quo(exact, ratNano)
			d := map[string]any{"frequency": rt.f, "duration_ns": dv}
			if !exact.IsInt() {
				c.Distinct(core.NewHash().Str("E").U64(uint64(ri)).U64(uint64(dv)).Sum())
				c.Obs("events_with_rounding", 1)
			}
			ok, diff := c17Within(int64(got), exact)
			if !ok {
				c.Violate("Events|error", caseID, fmt.Sprintf("Frequency(%v).Events(%dns)=%d, exact %s, off by %s", rt.f, dv, got, exact.FloatString(4), diff.FloatString(4)), d)
			}
			if prevDur >= 0 && got < prevE {
				c.Violate("Events|order", caseID, fmt.Sprintf("Frequency(%v): Events(%d)=%d < Events(%d)=%d", rt.f, dv, got, prevDur, prevE), d)
			}
			prevE, prevDur = got, dv
			// the duration of the count just returned, asked straight after
			// (quantising a duration to the event grid): the same oracle
			// applies whatever was asked before
			if got >= 0 {
				c.Eval(1)
				d2 := f.Duration(got)
				exact2 := new(big.Rat).Mul(ratNano, new(big.Rat).SetInt64(int64(got)))
				exact2.Quo(exact2, fr)
				c.Obs("durations_asked_straight_after_events", 1)
				if ok2, diff2 := c17Within(int64(d2), exact2); !ok2 {
					c.Violate("Duration|error-after-Events", caseID, fmt.Sprintf("Frequency(%v): Events(%dns)=%d, then Duration(%d)=%dns, exact %s ns, off by %s", rt.f, dv, got, got, int64(d2), exact2.FloatString(4), diff2.FloatString(4)), d)
				}
			}
		}
		c.Obs("rates", 1)
	}
	c.Floor("rates", 100)
	c.Floor("durations_with_rounding", 1000)
	c.Floor("tie_hunter_counts", 100)
}

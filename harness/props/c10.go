package props

import (
	"fmt"
	"math"
	"runtime"
	"time"

	"pipelined.dev/signal"
	"verifharness/core"
	"verifharness/dyn"
	"verifharness/mon"
)

func init() {
	register(&Def{
		ID:    "C10",
		Level: "exploration",
		Rule: "seeded histories of 50..2000 steps on one pool allocator (in half of the histories used through three copies of the allocator value made before its first use): get (up to 2..24 outstanding, per history; a third of the histories alternate bursts of gets with bursts of puts) / use {AppendSample x k, in-capacity Append, a growing Append after a view from frame 0 was taken (the view stays checked out, the grown buffer stays private), Write, WriteStriped, SetSample anywhere in the capacity through Slice(0,Capacity), same-type conversion into the buffer} / put of the buffer itself or of Slice(0,n) of it (each checkout put at most once) / forced double GC / get-fill-put cycles on a second pool of the same element type (where possible with another channel count and the same total length and capacity); all 13 built-in and 13 named element types; allocators with Length 0, 0<Length<Capacity, Length=Capacity and 1..8 channels; run in the plain build (sync.Pool hands a just-Put object back) and under -race (sync.Pool then drops a random quarter of the Puts); " +
			"every Get result is compared with a fresh allocation (shape, bit depth, zero over the whole capacity through the hook) and its address interval with those of all outstanding buffers; every outstanding buffer's contents are re-verified after every step; " +
			"distinct = distinct histories (hash of allocator + operation list); non-trivial = the history contains a Get that returned a previously Put object (identity by pinned header or storage address)",
		Assume: []string{"which object a Get returns is not asserted, only counted (reuse floor)", "every buffer ever seen is pinned so that addresses are never recycled by the Go allocator"},
		Plan: func(tier string) []Batch {
			bs := split("plain", 6, 900)
			for _, b := range split("race", 2, 1800) {
				b.Race = true
				bs = append(bs, b)
			}
			return bs
		},
		Run: runC10,
	})
}

type c10out struct {
	b      dyn.Buf
	lo, hi uintptr
	snap   []dyn.Val
	slen   int
}

func c10Snap(o *c10out) {
	o.snap = o.snap[:0]
	for i := 0; i < o.b.RawCap(); i++ {
		o.snap = append(o.snap, o.b.RawAt(i))
	}
	o.slen = o.b.RawLen()
}

func sameTypeConv(t *dyn.TypeOps) *dyn.ConvOp {
	for _, cv := range dyn.Convs {
		if cv.S == t && cv.D == t {
			return cv
		}
	}
	return nil
}

func runC10(c *core.Ctx) {
	r := c.Rand(10)
	hists := c.Pick(150, 5000)
	if c.Mode == "race" {
		hists = c.Pick(60, 600)
	}
	for hi := 0; hi < hists; hi++ {
		caseID := fmt.Sprintf("%s/h%d", c.Mode, hi)
		t := dyn.Types[r.Intn(len(dyn.Types))]
		al := signal.Allocator{Channels: r.Range(1, 8), Capacity: r.Pick(1, 2, 3, r.Range(4, 32))}
		if hi%9 == 8 {
			al.Capacity = r.Range(300, 1200) // large buffers: paths that depend on the size
		}
		if hi%50 == 49 && c.Mode != "race" {
			// more than 65536 samples, a size that no small number divides
			al.Channels = r.Pick(1, 3)
			al.Capacity = 70001/al.Channels + r.Range(1, 9)
			c.Obs("histories_with_more_than_65536_samples_per_buffer", 1)
		}
		switch r.Intn(3) {
		case 0:
			al.Length = 0
		case 1:
			al.Length = al.Capacity
		default:
			al.Length = r.Range(0, al.Capacity)
		}
		steps := r.Pick(50, 200, r.Range(50, 2000))
		if al.Channels*al.Capacity > 65536 {
			steps = 60
		}
		if c.Mode == "race" {
			steps = r.Range(50, 400)
		}
		c10History(c, r, t, al, steps, caseID, hi)
		if c.TooMany() {
			break
		}
	}
	c.Floor("gets_returning_a_previously_put_object", 100)
	c.Floor("gets_fresh_object", 100)
	c.Floor("puts_of_slice_from_frame_0", 50)
	c.Floor("headers_dropped_while_a_slice_stays_checked_out", 20)
}

func c10History(c *core.Ctx, r *core.Rand, t *dyn.TypeOps, al signal.Allocator, steps int, caseID string, hi int) {
	inst := "Pool[" + t.Name + "]"
	pool0 := t.PoolAlloc(al)
	// in half of the histories the allocator value is copied before its first
	// use and every Get / Put goes through one of the copies (they are one pool)
	pools := []dyn.Pool{pool0}
	if hi%2 == 1 {
		pools = append(pools, pool0.Copy(), pool0.Copy())
		c.Obs("histories_through_copies_of_the_allocator_value", 1)
	}
	pair := t.SelfPair
	conv := sameTypeConv(t)
	var out []*c10out
	var private []*c10out // buffers that moved away from pool storage by a growing Append and stay with their holder
	var pins []dyn.Buf    // everything ever seen: addresses cannot be recycled
	putHdr := map[uintptr]bool{}
	putBase := map[uintptr]bool{}
	var hist []string
	sig := core.NewHash().Str(t.Name).Int(al.Channels).Int(al.Length).Int(al.Capacity)
	reusedInThis := false
	noDrop := c.Mode == "race" // header addresses identify objects in the race histories
	log := func(s string) {
		if len(hist) < 400 {
			hist = append(hist, s)
		}
		sig.Str(s)
	}
	detail := func() map[string]any {
		h := hist
		if len(h) > 60 {
			h = append(append([]string{}, h[:10]...), append([]string{"..."}, h[len(h)-45:]...)...)
		}
		return map[string]any{"type": t.Name, "allocator": []int{al.Channels, al.Length, al.Capacity}, "build": c.Mode, "history": h}
	}
	stampN := int64(hi) * 100000
	stamp := func() dyn.Val {
		stampN++
		n := stampN
		switch {
		case t.Bits == 8:
			n = 1 + n%100
		case t.Bits == 16:
			n = 1 + n%30000
		case t.Kind == dyn.KFloat && t.Bits == 32:
			n = 1 + n%(1<<23)
		}
		return t.FromInt(n)
	}
	verifyOutstanding := func(step string) bool {
		for pi, o := range private {
			if o.b.RawLen() != o.slen || o.b.RawCap() != len(o.snap) {
				c.Violate(inst+"|crosstalk", caseID, fmt.Sprintf("after %s the holder's private (grown-away) buffer %d changed shape", step, pi), detail())
				return false
			}
			for i, w := range o.snap {
				if g := o.b.RawAt(i); !g.Same(w) {
					c.Violate(inst+"|crosstalk", caseID, fmt.Sprintf("after %s position %d of the holder's private (grown-away) buffer %d changed from %v to %v", step, i, pi, w, g), detail())
					return false
				}
			}
		}
		for oi, o := range out {
			if o.b.RawLen() != o.slen || o.b.RawCap() != len(o.snap) {
				c.Violate(inst+"|crosstalk", caseID, fmt.Sprintf("after %s outstanding buffer %d changed shape", step, oi), detail())
				return false
			}
			for i, w := range o.snap {
				if g := o.b.RawAt(i); !g.Same(w) {
					c.Violate(inst+"|crosstalk", caseID, fmt.Sprintf("after %s position %d of outstanding buffer %d changed from %v to %v", step, i, oi, w, g), detail())
					return false
				}
			}
		}
		return true
	}
	// another pool of the same element type lives in the same process and is
	// used in between; where the shape allows it, it has a different channel
	// count but the same total length and capacity as the pool under test
	var sib dyn.Pool
	sal := signal.Allocator{Channels: al.Channels + 1, Length: al.Length, Capacity: al.Capacity}
	if hi%3 != 2 {
		for c2 := 1; c2 <= 8; c2++ {
			if c2 != al.Channels && (al.Channels*al.Capacity)%c2 == 0 && (al.Channels*al.Length)%c2 == 0 && al.Capacity > 0 {
				sal = signal.Allocator{Channels: c2, Length: al.Channels * al.Length / c2, Capacity: al.Channels * al.Capacity / c2}
				if r.Chance(1, 2) {
					break
				}
			}
		}
		if sal.Channels*sal.Capacity <= 4096 {
			sib = t.PoolAlloc(sal)
		}
	}
	sibCycle := func() bool {
		var held []dyn.Buf
		for k := r.Range(1, 3); k > 0; k-- {
			g := sib.Get()
			if g.Channels() != sal.Channels || g.Length() != sal.Length || g.Capacity() != sal.Capacity || g.RawLen() != sal.Channels*sal.Length || g.RawCap() != sal.Channels*sal.Capacity {
				c.Violate(inst+"|shape-sibling-pool", caseID, fmt.Sprintf("Get on a second pool {C=%d L=%d K=%d} of the same element type returned %v", sal.Channels, sal.Length, sal.Capacity, mon.ShapeOf(g)), detail())
				return false
			}
			all := g.RawAll()
			for i := 0; i < all.Len(); i++ {
				all.Set(i, stamp())
			}
			held = append(held, g)
		}
		for _, g := range held {
			sib.Put(g)
		}
		log(fmt.Sprintf("sibling-pool{%d,%d,%d}:get*%d,fill,put*%d", sal.Channels, sal.Length, sal.Capacity, len(held), len(held)))
		c.Obs("cycles_on_a_second_pool_of_the_same_type", 1)
		return true
	}
	if sib != nil {
		if p, msg := core.Guard(func() { sibCycle() }); p {
			c.Violate(inst+"|panic", caseID, "get/put on a second pool panicked: "+msg, detail())
			return
		}
	}
	// how many buffers are outstanding at once, and whether gets and puts come
	// in bursts (fill up to the limit, then give almost everything back)
	maxOut, bursty, filling := 8, false, true
	switch hi % 4 {
	case 1:
		maxOut = r.Pick(2, 3)
	case 2:
		maxOut, bursty = r.Range(9, 24), true
	case 3:
		bursty = true
	}
	if al.Channels*al.Capacity > 300 {
		maxOut = min(maxOut, 8)
	}
	if bursty {
		c.Obs("histories_with_bursts_of_gets_and_puts", 1)
	}
	for st := 0; st < steps; st++ {
		c.Obs("steps", 1)
		op := r.Intn(10)
		if bursty {
			if len(out) >= maxOut {
				filling = false
			} else if len(out) == 0 {
				filling = true
			}
			if filling {
				op = [10]int{0, 0, 0, 0, 0, 0, 3, 3, 7, 9}[op]
			} else {
				op = [10]int{7, 7, 7, 7, 7, 7, 3, 3, 0, 9}[op]
			}
		}
		switch {
		case op < 3 && len(out) < maxOut: // get
			var g dyn.Buf
			if p, msg := core.Guard(func() { g = pools[r.Intn(len(pools))].Get() }); p {
				c.Violate(inst+"|panic", caseID, "Get panicked: "+msg, detail())
				return
			}
			pins = append(pins, g)
			reused := putHdr[g.HeaderAddr()] || (g.RawCap() > 0 && putBase[g.RawBase()])
			log(fmt.Sprintf("get->%s", map[bool]string{true: "reused", false: "fresh"}[reused]))
			c.Eval(1)
			if reused {
				c.Obs("gets_returning_a_previously_put_object", 1)
				reusedInThis = true
			} else {
				c.Obs("gets_fresh_object", 1)
			}
			if g.Channels() != al.Channels || g.Length() != al.Length || g.Capacity() != al.Capacity ||
				g.Len() != al.Channels*al.Length || g.Cap() != al.Channels*al.Capacity || g.RawLen() != al.Channels*al.Length || g.RawCap() != al.Channels*al.Capacity {
				kind := "|shape"
				if reused {
					kind = "|shape-after-reuse"
				}
				c.Violate(inst+kind, caseID, fmt.Sprintf("Get returned %v, allocator is {C=%d L=%d K=%d} (object was %s)", mon.ShapeOf(g), al.Channels, al.Length, al.Capacity, map[bool]string{true: "put back earlier", false: "never seen before"}[reused]), detail())
				return
			}
			if g.BitDepth() != t.Bits {
				c.Violate(inst+"|depth", caseID, fmt.Sprintf("Get returned bit depth %d for %s", g.BitDepth(), t.Name), detail())
				return
			}
			for i := 0; i < g.RawCap(); i++ {
				if v := g.RawAt(i); !v.IsZero() {
					kind := "|dirty"
					if i >= g.RawLen() {
						kind = "|dirty-beyond-length"
					}
					c.Violate(inst+kind, caseID, fmt.Sprintf("Get returned a buffer whose position %d (length %d, capacity %d) holds %v", i, g.RawLen(), g.RawCap(), v), detail())
					return
				}
			}
			c.Obs("cells_checked_zero", int64(g.RawCap()))
			o := &c10out{b: g, lo: g.RawBase(), hi: g.RawBase() + uintptr(g.RawCap()*t.SizeOf)}
			for pi, other := range private {
				if g.Same(other.b) || (o.lo < other.hi && other.lo < o.hi) {
					c.Violate(inst+"|shared-storage", caseID, fmt.Sprintf("Get returned storage [%#x,%#x) overlapping the holder's private (grown-away) buffer %d [%#x,%#x)", o.lo, o.hi, pi, other.lo, other.hi), detail())
					return
				}
			}
			for oi, other := range out {
				if g.Same(other.b) || (o.lo < other.hi && other.lo < o.hi) {
					c.Violate(inst+"|shared-storage", caseID, fmt.Sprintf("Get returned storage [%#x,%#x) overlapping outstanding buffer %d [%#x,%#x)", o.lo, o.hi, oi, other.lo, other.hi), detail())
					return
				}
			}
			if g.RawCap() > 0 && r.Chance(1, 6) {
				// the holder's first use writes nothing but the most extreme value
				// of the element type (lowest integer code, highest unsigned code,
				// NaN, -Inf) at a few places of the capacity
				var ext dyn.Val
				switch t.Kind {
				case dyn.KInt:
					ext = dyn.IntVal(t.MinI())
				case dyn.KUint:
					ext = dyn.UintVal(t.MaxU())
				default:
					ext = dyn.FloatVal([]float64{math.NaN(), math.Inf(-1)}[r.Intn(2)])
				}
				full := g.Slice(0, al.Capacity)
				for k := r.Range(1, 3); k > 0; k-- {
					full.SetSample(r.Intn(full.Len()), ext)
				}
				log(fmt.Sprintf("write-only-%v", ext))
				c.Obs("checkouts_whose_first_use_writes_only_the_extreme_value", 1)
			}
			c10Snap(o)
			out = append(out, o)
			c.ObsMax("max_outstanding", int64(len(out)))
		case op < 7 && len(out) > 0: // use
			o := out[r.Intn(len(out))]
			b := o.b
			var what string
			p, msg := core.Guard(func() {
				switch r.Intn(7) {
				case 6:
					// the holder takes a view from frame 0, then appends so much to
					// the buffer itself that it moves to new storage; the holder goes
					// on with (and later puts) the view, which still is the pool's
					// storage; the grown buffer stays the holder's private property
					if noDrop || al.Capacity == 0 || b.Len()%al.Channels != 0 {
						what = "appendsample*1"
						b.AppendSample(stamp())
						break
					}
					v := b.Slice(0, r.Range(0, al.Capacity))
					n := al.Capacity + 1 + r.Intn(3)
					what = fmt.Sprintf("view:=slice(0,%d);append(%d frames: the buffer moves);continue-with-view", v.Length(), n)
					src := t.Alloc(signal.Allocator{Channels: al.Channels, Length: n, Capacity: n})
					for i := 0; i < src.Len(); i++ {
						src.SetSample(i, stamp())
					}
					b.Append(src)
					if r.Chance(1, 2) {
						// the holder tries to put the grown buffer: its total capacity is
						// not the pool's, so the pool must refuse it (C15 decides whether
						// it panics) and stay as it was
						core.Guard(func() { pools[r.Intn(len(pools))].Put(b) })
						what += ";put(grown buffer: must be refused)"
						c.Obs("puts_of_a_grown_buffer_attempted", 1)
					}
					pr := &c10out{b: b, lo: b.RawBase(), hi: b.RawBase() + uintptr(b.RawCap()*t.SizeOf)}
					c10Snap(pr)
					private = append(private, pr)
					delete(putHdr, b.HeaderAddr())
					o.b = v
					c.Obs("buffers_grown_away_while_a_view_from_frame_0_stays_checked_out", 1)
				case 0:
					k := r.Range(1, 5)
					what = fmt.Sprintf("appendsample*%d", k)
					for i := 0; i < k; i++ {
						b.AppendSample(stamp())
					}
				case 1:
					room := (b.Cap() - b.Len()) / al.Channels
					if b.Len()%al.Channels == 0 && room > 0 {
						n := r.Range(1, room)
						what = fmt.Sprintf("append(%d frames)", n)
						src := t.Alloc(signal.Allocator{Channels: al.Channels, Length: n, Capacity: n})
						for i := 0; i < src.Len(); i++ {
							src.SetSample(i, stamp())
						}
						b.Append(src)
					} else {
						what = "appendsample*1"
						b.AppendSample(stamp())
					}
				case 2:
					n := r.Range(0, b.Len()+2)
					what = fmt.Sprintf("write(%d)", n)
					src := t.MakeSl(n)
					for i := 0; i < n; i++ {
						src.Set(i, stamp())
					}
					pair.Write(src, b)
				case 3:
					if b.Len()%al.Channels == 0 {
						lens := make([]int, al.Channels)
						for i := range lens {
							lens[i] = r.Range(0, b.Length()+1)
						}
						what = fmt.Sprintf("writestriped(%v)", lens)
						ss := t.MakeSS(lens)
						for ci := range lens {
							for i := 0; i < lens[ci]; i++ {
								ss.At(ci).Set(i, stamp())
							}
						}
						pair.WriteStriped(ss, b)
					} else {
						what = "appendsample*1"
						b.AppendSample(stamp())
					}
				case 4:
					full := b.Slice(0, b.Capacity())
					if full.Len() > 0 {
						k := r.Range(1, 6)
						what = fmt.Sprintf("slice(0,cap).setsample*%d", k)
						for i := 0; i < k; i++ {
							full.SetSample(r.Intn(full.Len()), stamp())
						}
						// and the two ends of the capacity
						full.SetSample(full.Len()-1-r.Intn(min(3, full.Len())), stamp())
						full.SetSample(r.Intn(min(3, full.Len())), stamp())
					}
				default:
					if conv == nil { // no same-type conversion instantiated for this (named) type
						what = "appendsample*1"
						b.AppendSample(stamp())
						break
					}
					n := r.Range(0, al.Capacity)
					what = fmt.Sprintf("convert-into(%d frames)", n)
					src := t.Alloc(signal.Allocator{Channels: al.Channels, Length: n, Capacity: n})
					for i := 0; i < src.Len(); i++ {
						src.SetSample(i, stamp())
					}
					conv.Call(src, b)
				}
			})
			if p {
				c.Violate(inst+"|panic", caseID, fmt.Sprintf("use step %q panicked: %s", what, msg), detail())
				return
			}
			log("use:" + what)
			c10Snap(o)
		case op < 9 && len(out) > 0: // put
			i := r.Intn(len(out))
			o := out[i]
			out = append(out[:i], out[i+1:]...)
			pb := o.b
			what := "put"
			if r.Chance(1, 3) {
				n := r.Range(0, al.Capacity)
				pb = o.b.Slice(0, n)
				pins = append(pins, pb)
				what = fmt.Sprintf("put(slice(0,%d))", n)
				c.Obs("puts_of_slice_from_frame_0", 1)
			}
			if p, msg := core.Guard(func() { pools[r.Intn(len(pools))].Put(pb) }); p {
				c.Violate(inst+"|panic", caseID, fmt.Sprintf("%s panicked: %s", what, msg), detail())
				return
			}
			putHdr[pb.HeaderAddr()] = true
			if pb.RawCap() > 0 {
				putBase[pb.RawBase()] = true
			}
			log(what)
			c.Obs("puts", 1)
		default:
			switch {
			case sib != nil && r.Chance(1, 2):
				ok := true
				if p, msg := core.Guard(func() { ok = sibCycle() }); p {
					c.Violate(inst+"|panic", caseID, "get/put on a second pool panicked: "+msg, detail())
					return
				}
				if !ok {
					return
				}
			case r.Chance(1, 6):
				runtime.GC()
				runtime.GC()
				log("gc*2")
				c.Obs("forced_double_gcs", 1)
			case r.Chance(1, 5) && len(out) > 0 && !noDrop:
				// the holder keeps only a slice from frame 0 of its buffer and
				// lets go of the header it was given; then the collector runs
				// (finalizers get their chance). The checkout is still
				// outstanding: its storage must stay exclusively the holder's.
				o := out[r.Intn(len(out))]
				old := o.b
				o.b = old.Slice(0, al.Capacity)
				delete(putHdr, old.HeaderAddr())
				for i := range pins {
					if pins[i] != nil && pins[i].Same(old) {
						pins[i] = nil
					}
				}
				old = nil
				c10Snap(o)
				for i := 0; i < 2; i++ {
					runtime.GC()
					runtime.Gosched()
					time.Sleep(200 * time.Microsecond)
				}
				log("keep-only-slice(0,K);drop-header;gc*2")
				c.Obs("headers_dropped_while_a_slice_stays_checked_out", 1)
			}
		}
		last := "start"
		if len(hist) > 0 {
			last = hist[len(hist)-1]
		}
		if !verifyOutstanding(last) {
			return
		}
	}
	c.Eval(1)
	if reusedInThis {
		c.Distinct(sig.Sum())
	}
	c.Obs("histories", 1)
	if hi%40 == 0 {
		d := detail()
		h := d["history"].([]string)
		if len(h) > 25 {
			d["history"] = h[:25]
		}
		c.Sample("history", d)
	}
}

package props

import (
	"fmt"
	"runtime"
	"sort"
	"sync"
	"time"

	"github.com/anishathalye/porcupine"
	"pipelined.dev/signal"
	"verifharness/core"
	"verifharness/dyn"
	"verifharness/mon"
)

func init() {
	register(&Def{
		ID:    "C11",
		Level: "exploration",
		Rule: "configurations G in {2,4,8,16,32,64} goroutines x GOMAXPROCS in {1,2,4,8,16} x allocator shared by pointer / copied by value per goroutine x 4 element types x allocators with Length 0 / full length: every goroutine runs M cycles of {get 1..3 buffers, check freshness (shape, zero over the whole capacity), stamp the whole capacity with goroutine<<32|cycle, yield/spin/sleep, re-read the stamps, put back-to-back (the buffer or Slice(0,n) of it)}, with forced double GCs at seeded cycles; " +
			"goroutines share nothing with the monitor while running (per-goroutine logs with monotonic call/return timestamps, checked after Wait). Oracles: the Go race detector (race build, quiet mode), ownership stamps, freshness, an interval-overlap scan of the holding periods per storage key, and porcupine v1.3.0 linearizability of the recorded Get/Put history per storage key against the one-bit model held/free; " +
			"each configuration is one short history; distinct = distinct per-key ownership sequences (hash of the time-ordered (goroutine, operation) list of a storage key); non-trivial = the key was handed over between two different goroutines at least once; " +
			"also: buffers put back ending in a partly filled frame",
		Assume: []string{"the race detector only reports races on executed paths", "schedules are those the Go scheduler produced under the perturbations listed; timestamps come from one monotonic clock",
			"a porcupine timeout (60 s per history) is inconclusive, never a violation", "all buffers obtained during a history stay pinned so a storage address identifies one storage"},
		Plan: func(tier string) []Batch {
			var bs []Batch
			for _, b := range split("race", 4, 900) {
				b.Race = true
				b.Weight = 4
				bs = append(bs, b)
			}
			for _, b := range split("plain", 4, 900) {
				b.Weight = 4
				bs = append(bs, b)
			}
			bs = append(bs, Batch{Name: "race-selftest", Mode: "selftest", NBatch: 1, Race: true, ExpectRace: true, WatchdogS: 300, Weight: 2})
			return bs
		},
		Run: runC11,
	})
}

type c11event struct {
	g         int
	put       bool
	key       uintptr
	call, ret int64
}

type c11worker struct {
	g           int
	events      []c11event
	errs        []string
	errKey      []string
	pins        []dyn.Buf
	cycles      int
	appends     int
	partialPuts int
	gets        int
	reuse       int
}

type c11cfg struct {
	G, Procs, M  int
	ByValue      bool
	TypeID       int
	Alloc        signal.Allocator
	SliceOnPut   bool
	GCEvery      int
	YieldPattern int
}

func (cf c11cfg) String() string {
	return fmt.Sprintf("G=%d procs=%d M=%d byvalue=%v type=%s alloc={%d,%d,%d} sliceput=%v gcEvery=%d yield=%d", cf.G, cf.Procs, cf.M, cf.ByValue,
		dyn.Types[cf.TypeID].Name, cf.Alloc.Channels, cf.Alloc.Length, cf.Alloc.Capacity, cf.SliceOnPut, cf.GCEvery, cf.YieldPattern)
}

var c11sink int

func c11Spin(n int) {
	x := 0
	for i := 0; i < n; i++ {
		x += i ^ (x >> 3)
	}
	if x == 42 {
		c11sink++
	}
}

func runC11(c *core.Ctx) {
	if c.Mode == "selftest" {
		runRaceSelfTest(c)
		return
	}
	race := c.Mode == "race"
	r := c.Rand(11)
	nCfg := c.Pick(10, 60)
	gs := []int{2, 4, 8, 16, 32, 64}
	procs := []int{1, 2, 4, 8, 16}
	typeIDs := []int{1, 3, 7, 12} // int16 int64 uint32 float64
	defer runtime.GOMAXPROCS(runtime.GOMAXPROCS(0))
	for ci := 0; ci < nCfg; ci++ {
		cf := c11cfg{G: gs[(ci+c.Batch)%len(gs)], Procs: procs[(ci/2+c.Batch)%len(procs)], ByValue: r.Bool(), TypeID: typeIDs[r.Intn(len(typeIDs))],
			SliceOnPut: r.Chance(1, 3), YieldPattern: r.Intn(4)}
		capFrames := r.Pick(8, 64, 256)
		if !race {
			capFrames = r.Pick(64, 1024, 8192) // long clear() widens the release window
		}
		cf.Alloc = signal.Allocator{Channels: r.Range(1, 2), Capacity: capFrames}
		if r.Bool() {
			cf.Alloc.Length = capFrames
		}
		if ci%8 == 3 {
			// more than 65536 samples per buffer: paths that depend on the size
			cf.Alloc = signal.Allocator{Channels: 2, Capacity: r.Range(33000, 40000)}
			if r.Bool() {
				cf.Alloc.Length = cf.Alloc.Capacity
			}
			cf.G = min(cf.G, 8)
			cf.GCEvery = 0
			c.Obs("configurations_with_more_than_65536_samples", 1)
		}
		if ci%8 == 6 {
			// allocator without storage (zero capacity or zero channels): the
			// buffers are bare headers; ownership is then tracked by the header
			cf.Alloc = signal.Allocator{Channels: r.Pick(0, 1, 2), Length: 0, Capacity: 0}
			if cf.Alloc.Channels == 0 {
				cf.Alloc.Capacity = 8
			}
			cf.SliceOnPut = false
			c.Obs("configurations_with_storage_less_allocator", 1)
		}
		total := c.Pick(1500, 4000)
		if !race {
			total = c.Pick(4000, 20000)
		}
		cf.M = max(4, total/cf.G)
		if cf.Alloc.Channels*cf.Alloc.Capacity > 65536 {
			cf.M = max(4, c.Pick(120, 400)/cf.G) // every cycle touches >10^5 samples several times
		}
		cf.GCEvery = r.Pick(0, 37, 101)
		// every buffer of a history stays pinned: bound the memory that the
		// re-creation after forced GCs can consume (<= ~256 MB per history)
		if cf.GCEvery > 0 {
			gcs := (cf.M/cf.GCEvery + 1) * (cf.G/4 + 1)
			per := cf.Alloc.Channels * 8 * cf.G * 3 * gcs
			if per == 0 {
				per = 1
			}
			if lim := (256 << 20) / per; cf.Alloc.Capacity > lim && cf.Alloc.Channels*cf.Alloc.Capacity > 0 {
				cf.Alloc.Capacity = max(8, lim)
				if cf.Alloc.Length > 0 {
					cf.Alloc.Length = cf.Alloc.Capacity
				}
			}
		}
		caseID := fmt.Sprintf("%s/cfg%d", c.Mode, ci)
		if !c.Want(caseID) {
			continue
		}
		c11Run(c, cf, caseID, uint64(ci))
		if c.TooMany() {
			break
		}
	}
	c.Floor("configurations_with_storage_less_allocator", 1)
	c.Floor("configurations_with_more_than_65536_samples", 1)
	c.Floor("handoffs_between_goroutines", 50)
	c.Floor("gets_returning_a_previously_put_storage", 100)
	c.Floor("histories_checked_by_porcupine", 1)
}

func c11Run(c *core.Ctx, cf c11cfg, caseID string, stream uint64) {
	t := dyn.Types[cf.TypeID]
	inst := "Pool[" + t.Name + "]"
	runtime.GOMAXPROCS(cf.Procs)
	shared := t.PoolAlloc(cf.Alloc)
	if cf.Procs > 2 && stream%2 == 0 {
		// the allocator is created while few processors are configured and used
		// after their number was raised
		runtime.GOMAXPROCS(1 + int(stream/2)%2)
		shared = t.PoolAlloc(cf.Alloc)
		runtime.GOMAXPROCS(cf.Procs)
		c.Obs("configurations_whose_allocator_was_created_under_a_lower_GOMAXPROCS", 1)
	}
	// one read-only source buffer (not a pool buffer) that every goroutine may
	// append to the buffers it holds
	var fillSrc dyn.Buf
	if n := cf.Alloc.Capacity - cf.Alloc.Length; n > 0 && cf.Alloc.Channels > 0 {
		fillSrc = t.Alloc(signal.Allocator{Channels: cf.Alloc.Channels, Length: min(n, 3), Capacity: min(n, 3) + 1})
		for i := 0; i < fillSrc.Len(); i++ {
			fillSrc.SetSample(i, t.FromInt(int64(1+i%7)))
		}
	}
	workers := make([]*c11worker, cf.G)
	var wg sync.WaitGroup
	start := make(chan struct{})
	base := time.Now()
	for g := 0; g < cf.G; g++ {
		w := &c11worker{g: g}
		workers[g] = w
		pool := shared
		if cf.ByValue {
			pool = shared.Copy()
		}
		rg := core.NewRand(c.Seed, core.HashStr(caseID), uint64(g)+1)
		wg.Add(1)
		go func() {
			defer wg.Done()
			<-start
			c11Worker(w, pool, t, cf, rg, base, fillSrc)
		}()
	}
	close(start)
	wg.Wait()
	// ---------------- offline checks
	d := map[string]any{"config": cf.String(), "build": c.Mode}
	var all []c11event
	for _, w := range workers {
		all = append(all, w.events...)
		for i, e := range w.errs {
			c.Violate(inst+"|"+w.errKey[i], caseID, e, d)
		}
		c.Obs("cycles", int64(w.cycles))
		c.Obs("appends_of_one_held_buffer_to_another", int64(w.appends))
		c.Obs("buffers_put_back_ending_in_a_partly_filled_frame", int64(w.partialPuts))
		c.Obs("gets", int64(w.gets))
	}
	c.Eval(int64(len(all)))
	byKey := map[uintptr][]c11event{}
	for _, e := range all {
		byKey[e.key] = append(byKey[e.key], e)
	}
	c.Obs("storage_keys", int64(len(byKey)))
	// interval-overlap scan: a goroutine holds a key from its Get's return to
	// its Put's call; two holding periods of one key must not overlap
	for key, evs := range byKey {
		sort.Slice(evs, func(i, j int) bool { return evs[i].call < evs[j].call })
		type hold struct {
			g        int
			from, to int64
		}
		var holds []hold
		open := map[int]int64{}
		h := core.NewHash()
		handoff := false
		lastG := -1
		for _, e := range evs {
			h.Int(e.g)
			if e.put {
				h.Int(1)
				if from, ok := open[e.g]; ok {
					holds = append(holds, hold{e.g, from, e.call})
					delete(open, e.g)
				} else {
					c.Violate(inst+"|history", caseID, fmt.Sprintf("goroutine %d put storage %#x which it did not hold", e.g, key), d)
				}
			} else {
				h.Int(0)
				if _, ok := open[e.g]; ok {
					c.Violate(inst+"|double-get", caseID, fmt.Sprintf("goroutine %d got storage %#x twice without putting it back", e.g, key), d)
				}
				open[e.g] = e.ret
				if lastG >= 0 && lastG != e.g {
					handoff = true
					c.Obs("handoffs_between_goroutines", 1)
				}
				if lastG >= 0 {
					c.Obs("gets_returning_a_previously_put_storage", 1)
				}
				lastG = e.g
			}
		}
		for g, from := range open {
			holds = append(holds, hold{g, from, 1 << 62})
		}
		sort.Slice(holds, func(i, j int) bool { return holds[i].from < holds[j].from })
		for i := 1; i < len(holds); i++ {
			if holds[i].from < holds[i-1].to && holds[i].g != holds[i-1].g {
				c.Violate(inst+"|two-holders", caseID, fmt.Sprintf("storage %#x was held by goroutine %d during [%d,%d] and by goroutine %d from %d (ns since start)", key, holds[i-1].g, holds[i-1].from, holds[i-1].to, holds[i].g, holds[i].from), d)
				break
			}
		}
		if handoff {
			c.Distinct(h.Sum())
		}
	}
	// porcupine: per-key one-bit model
	ops := make([]porcupine.Operation, 0, len(all))
	for _, e := range all {
		ops = append(ops, porcupine.Operation{ClientId: e.g, Input: e, Call: e.call, Return: e.ret})
	}
	model := porcupine.Model{
		Partition: func(history []porcupine.Operation) [][]porcupine.Operation {
			m := map[uintptr][]porcupine.Operation{}
			for _, o := range history {
				k := o.Input.(c11event).key
				m[k] = append(m[k], o)
			}
			var out [][]porcupine.Operation
			for _, v := range m {
				out = append(out, v)
			}
			return out
		},
		Init: func() interface{} { return false },
		Step: func(state, input, output interface{}) (bool, interface{}) {
			held := state.(bool)
			if input.(c11event).put {
				return held, false
			}
			return !held, true
		},
		Equal: func(a, b interface{}) bool { return a.(bool) == b.(bool) },
	}
	switch res := porcupine.CheckOperationsTimeout(model, ops, 60*time.Second); res {
	case porcupine.Ok:
		c.Obs("histories_checked_by_porcupine", 1)
		c.Obs("operations_checked_by_porcupine", int64(len(ops)))
	case porcupine.Illegal:
		c.Violate(inst+"|not-linearizable", caseID, "the recorded Get/Put history is not linearizable against the held/free model of a storage key (two goroutines held one buffer)", d)
	default:
		c.Inconclusive("porcupine timed out on " + caseID)
	}
	if int(stream)%7 == 0 {
		// the recorded history of one storage key that changed hands
		var excerpt []string
		for key, evs := range byKey {
			gs := map[int]bool{}
			for _, e := range evs {
				gs[e.g] = true
			}
			if len(gs) < 2 {
				continue
			}
			for _, e := range evs[:min(10, len(evs))] {
				op := "get"
				if e.put {
					op = "put"
				}
				excerpt = append(excerpt, fmt.Sprintf("g%d %s [%d,%d]ns", e.g, op, e.call, e.ret))
			}
			_ = key
			break
		}
		c.Sample("configuration", map[string]any{"config": cf.String(), "events": len(all), "storage_keys": len(byKey), "history_of_one_storage_key(first 10 events)": excerpt})
	}
	c.Obs("configurations", 1)
}

func c11Worker(w *c11worker, pool dyn.Pool, t *dyn.TypeOps, cf c11cfg, r *core.Rand, base time.Time, fillSrc dyn.Buf) {
	al := cf.Alloc
	fail := func(key, msg string) {
		if len(w.errs) < 5 {
			w.errs = append(w.errs, msg)
			w.errKey = append(w.errKey, key)
		}
	}
	yield := func() {
		switch (cf.YieldPattern + r.Intn(2)) % 4 {
		case 0:
			runtime.Gosched()
		case 1:
			c11Spin(r.Range(10, 2000))
		case 2:
			time.Sleep(time.Duration(r.Range(1, 30)) * time.Microsecond)
		}
	}
	for cy := 0; cy < cf.M; cy++ {
		w.cycles++
		nb := r.Range(1, 3)
		var held []dyn.Buf
		var stamps []dyn.Val
		for i := 0; i < nb; i++ {
			t0 := time.Since(base).Nanoseconds()
			var b dyn.Buf
			if p, msg := core.Guard(func() { b = pool.Get() }); p {
				fail("panic", fmt.Sprintf("goroutine %d cycle %d: Get panicked: %s", w.g, cy, msg))
				continue
			}
			t1 := time.Since(base).Nanoseconds()
			w.gets++
			w.pins = append(w.pins, b)
			key := b.RawBase()
			if al.Channels*al.Capacity == 0 {
				key = b.HeaderAddr() // no storage: the header is the buffer
			}
			w.events = append(w.events, c11event{g: w.g, put: false, key: key, call: t0, ret: t1})
			// freshness (C10's oracle)
			wantLength, wantCapacity := al.Length, al.Capacity
			if al.Channels == 0 {
				wantLength, wantCapacity = 0, 0
			}
			if b.BitDepth() != t.Bits {
				fail("depth", fmt.Sprintf("goroutine %d cycle %d: Get returned a buffer of bit depth %d for element type %s", w.g, cy, b.BitDepth(), t.Name))
			}
			if b.Channels() != al.Channels || b.Length() != wantLength || b.Capacity() != wantCapacity || b.RawLen() != al.Channels*al.Length || b.RawCap() != al.Channels*al.Capacity {
				fail("shape", fmt.Sprintf("goroutine %d cycle %d: Get returned %v, allocator {C=%d L=%d K=%d}", w.g, cy, mon.ShapeOf(b), al.Channels, al.Length, al.Capacity))
			} else {
				for j := 0; j < b.RawCap(); j++ {
					if v := b.RawAt(j); !v.IsZero() {
						fail("dirty", fmt.Sprintf("goroutine %d cycle %d: Get returned a buffer with %v at position %d", w.g, cy, v, j))
						break
					}
				}
			}
			// a holder appends the shared, read-only source buffer to the buffer
			// it just got (it fits the capacity)
			filled := false
			if fillSrc != nil && r.Chance(1, 4) {
				filled = true
				if p, msg := core.Guard(func() { b.Append(fillSrc) }); p {
					fail("panic", fmt.Sprintf("goroutine %d cycle %d: appending the shared source buffer to a pooled buffer panicked: %s", w.g, cy, msg))
				}
				w.appends++
			}
			// a holder of two buffers fills the first up to its capacity and
			// appends (part of) it to the second, still empty of its own
			// samples, before using the second: both stay separate buffers
			if !filled && len(held) > 0 && al.Channels*al.Capacity > 0 && al.Length < al.Capacity && r.Chance(1, 3) {
				prev, prevStamp := held[len(held)-1], stamps[len(stamps)-1]
				if p, msg := core.Guard(func() {
					for prev.Len() < prev.Cap() {
						prev.AppendSample(prevStamp)
					}
					b.Append(prev.Slice(0, al.Capacity-al.Length))
				}); p {
					fail("panic", fmt.Sprintf("goroutine %d cycle %d: filling one held buffer and appending it to another panicked: %s", w.g, cy, msg))
				}
				w.appends++
			}
			// stamp the whole capacity
			n := (int64(w.g+1) << 20) | int64(cy&0xfffff)
			if t.Bits == 16 {
				n = int64(1 + (w.g*131+cy)%30000)
			}
			s := t.FromInt(n)
			if al.Channels*al.Capacity > 0 {
				full := b.Slice(0, al.Capacity)
				for j := 0; j < full.Len(); j++ {
					full.SetSample(j, s)
				}
			} else {
				b.AppendSample(s) // a no-op on a buffer without capacity
			}
			held = append(held, b)
			stamps = append(stamps, s)
			if r.Chance(1, 2) {
				yield()
			}
		}
		yield()
		for i, b := range held {
			for j := 0; j < b.RawCap(); j++ {
				if v := b.RawAt(j); !dyn.NumEq(v, stamps[i]) {
					fail("stamp-lost", fmt.Sprintf("goroutine %d cycle %d: position %d of a held buffer changed from its stamp %v to %v while held", w.g, cy, j, stamps[i], v))
					break
				}
			}
		}
		for i, b := range held {
			pb := b
			if al.Channels >= 2 && b.Len() < b.Cap() && r.Chance(1, 3) {
				// the buffer goes back ending in a partly filled frame
				b.AppendSample(stamps[i])
				w.partialPuts++
			}
			if cf.SliceOnPut && r.Bool() {
				pb = b.Slice(0, r.Range(0, al.Capacity))
				w.pins = append(w.pins, pb)
			}
			key := pb.RawBase()
			if al.Channels*al.Capacity == 0 {
				key = pb.HeaderAddr()
			}
			t0 := time.Since(base).Nanoseconds()
			if p, msg := core.Guard(func() { pool.Put(pb) }); p {
				fail("panic", fmt.Sprintf("goroutine %d cycle %d: Put panicked: %s", w.g, cy, msg))
			}
			t1 := time.Since(base).Nanoseconds()
			w.events = append(w.events, c11event{g: w.g, put: true, key: key, call: t0, ret: t1})
		}
		if cf.GCEvery > 0 && (cy+w.g)%cf.GCEvery == cf.GCEvery-1 && w.g%4 == 0 {
			runtime.GC()
			runtime.GC()
		}
		if r.Chance(1, 3) {
			yield()
		}
	}
}

// runRaceSelfTest produces one deliberate data race on harness-owned memory:
// the race detector must report it, which proves that the race build is
// active and that the driver reads the report files.
func runRaceSelfTest(c *core.Ctx) {
	x := make([]int, 4)
	var wg sync.WaitGroup
	for g := 0; g < 2; g++ {
		wg.Add(1)
		go func(g int) {
			defer wg.Done()
			for i := 0; i < 1000; i++ {
				x[0] += g + i
			}
		}(g)
	}
	wg.Wait()
	c.Eval(1)
	c.Obs("selftest_runs", 1)
}

package props

import (
	"fmt"
	"runtime"
	"sync"
	"time"

	"pipelined.dev/signal"
	"verifharness/core"
	"verifharness/dyn"
)

func init() {
	register(&Def{
		ID:    "C19",
		Level: "exploration",
		Rule: "one shared buffer per run (5 element types, channel counts {1,2,3,8,9,17}, 24..96 frames, with spare capacity). Phase A: R<=16 readers run every read-only entry point on the whole buffer in seeded orders (Sample, Len, Cap, Length, Capacity, Channels, BitDepth, BufferIndex, Read, ReadStriped, Slice and nested Slice also up to the capacity, Channel(c) accessors and Sample, use as a conversion source into a private destination, use as the source of an Append that grows a private buffer which its owner then overwrites); the shared buffer is freshly allocated, a Slice view, grown by Append or an untouched pool buffer. Phase B: readers confined to a read-only frame range while W<=8 writers each obtain shared.Slice(lo,hi) concurrently and write only inside it (SetSample, Write, WriteStriped, conversion destination, channel-view SetSample); random yields; GOMAXPROCS in {1,4,16}; " +
			"oracles: the Go race detector (race build; goroutines share nothing with the monitor while running) and, in both builds, every reader's result digest and the final buffer contents compared with a sequential execution of the same seeded work; " +
			"distinct = distinct (configuration, goroutine role, seeded operation order) work lists; non-trivial = every work list (each executes library code on the shared buffer concurrently with others); " +
			"also: writers that fill a channel view as long as the view says, striped reads from a front window into longer rows, writers that empty and refill their window sample by sample",
		Assume: []string{"the race detector only reports races on executed paths; schedules are those the Go scheduler produced", "readers and writers of the same frames are outside the property and never generated"},
		Plan: func(tier string) []Batch {
			var bs []Batch
			for _, b := range split("race", 3, 1800) {
				b.Race = true
				b.Weight = 4
				bs = append(bs, b)
			}
			for _, b := range split("plain", 2, 1800) {
				b.Weight = 4
				bs = append(bs, b)
			}
			bs = append(bs, Batch{Name: "race-selftest", Mode: "selftest", NBatch: 1, Race: true, ExpectRace: true, WatchdogS: 300, Weight: 2})
			return bs
		},
		Run: runC19,
	})
}

type c19env struct {
	t      *dyn.TypeOps
	ch     int
	pair   *dyn.PairOps
	convsS []*dyn.ConvOp // every conversion instantiation with this element type as source
	convsD []*dyn.ConvOp // ... as destination
}

// readerWork runs nOps read-only operations on frames [0,limit) of b and
// returns a digest of everything it observed.
func (e *c19env) readerWork(b dyn.Buf, limit int, spareOK bool, r *core.Rand, nOps int, yield func()) uint64 {
	h := core.NewHash()
	ch := e.ch
	for op := 0; op < nOps; op++ {
		switch r.Intn(12) {
		case 0:
			for k := 0; k < 8; k++ {
				i := r.Intn(max(1, limit*ch))
				if limit > 0 {
					h.U64(b.Sample(i).Bits())
				}
			}
		case 1:
			h.Int(b.Len()).Int(b.Cap()).Int(b.Length()).Int(b.Capacity()).Int(b.Channels()).Int(b.BitDepth())
		case 2:
			h.Int(b.BufferIndex(r.Intn(ch), r.Intn(limit+1)))
		case 3:
			n := r.Range(0, limit*ch)
			dst := e.t.MakeSl(n)
			h.Int(e.pair.Read(b, dst))
			for i := 0; i < n; i++ {
				h.U64(dst.Get(i).Bits())
			}
		case 4:
			lens := make([]int, ch)
			for i := range lens {
				lens[i] = r.Range(0, limit)
			}
			rsrc := b
			if r.Chance(1, 3) {
				// from a front window of the read-only range, into rows that are
				// longer than the window
				rsrc = b.Slice(0, r.Range(0, limit))
				for i := range lens {
					lens[i] = rsrc.Length() + r.Range(0, 3)
				}
			}
			ss := e.t.MakeSS(lens)
			h.Int(e.pair.ReadStriped(rsrc, ss))
			for ci := range lens {
				for i := 0; i < lens[ci]; i++ {
					h.U64(ss.At(ci).Get(i).Bits())
				}
			}
		case 5, 6:
			s := r.Range(0, limit)
			top := limit
			if r.Chance(1, 3) {
				// a view that reaches past the reader's range, up to the capacity:
				// building it is header-only; its samples are read only where
				// nobody writes (phase A: the spare capacity too)
				top = b.Capacity()
			}
			en := r.Range(s, top)
			v := b.Slice(s, en)
			h.Int(v.Len()).Int(v.Length()).Int(v.Channels()).Int(v.BitDepth())
			if en > limit && !spareOK {
				en = limit
			}
			if en > s {
				v2 := v.Slice(0, r.Range(0, en-s))
				h.Int(v2.Len())
				for i := 0; i < v2.Len(); i += 1 + v2.Len()/7 {
					h.U64(v2.Sample(i).Bits())
				}
			}
		case 7, 8:
			cv := b.Channel(r.Intn(ch))
			h.Int(cv.Channels()).Int(cv.Length()).Int(cv.Capacity())
			if limit > 0 {
				for k := 0; k < 6; k++ {
					i := r.Intn(limit)
					h.U64(cv.Sample(i).Bits())
					h.Int(cv.BufferIndex(0, i))
				}
			}
		case 9:
			// source of an Append into a private, initially too small buffer,
			// which its owner then overwrites
			s := r.Range(0, limit)
			en := r.Range(s, limit)
			src := b.Slice(s, en)
			if spareOK && r.Chance(1, 3) {
				src = b
			}
			dcap := r.Pick(0, 1, 2, en-s+2)
			dst := e.t.Alloc(signal.Allocator{Channels: ch, Length: min(dcap, r.Pick(0, 0, 1)), Capacity: dcap})
			dst.Append(src)
			h.Int(dst.Len())
			for i := 0; i < dst.Len(); i += 1 + dst.Len()/9 {
				h.U64(dst.Sample(i).Bits())
			}
			for i := 0; i < dst.Len(); i++ {
				dst.SetSample(i, e.t.FromInt(int64(7+i%5)))
			}
		default:
			// conversion source into a private destination of `limit` frames
			cv := e.convsS[r.Intn(len(e.convsS))]
			dst := cv.D.Alloc(signal.Allocator{Channels: ch, Length: limit, Capacity: limit})
			h.Int(cv.Call(b, dst))
			for i := 0; i < dst.Len(); i += 1 + dst.Len()/9 {
				h.U64(dst.Sample(i).Bits())
			}
		}
		if doYield := r.Chance(1, 3); doYield && yield != nil { // always drawn: same stream with and without yields
			yield()
		}
	}
	return h.Sum()
}

// writerWork obtains shared.Slice(lo,hi) itself and writes only inside it.
func (e *c19env) writerWork(shared dyn.Buf, lo, hi int, r *core.Rand, nOps int, tag int64, yield func()) {
	ch := e.ch
	v := shared.Slice(lo, hi)
	n := int64(0)
	val := func() dyn.Val {
		n++
		x := tag*1000 + n%997
		if e.t.Bits == 8 {
			x = 1 + (tag*7+n)%100
		}
		return e.t.FromInt(x)
	}
	frames := hi - lo
	for op := 0; op < nOps; op++ {
		switch r.Intn(7) {
		case 0:
			for k := 0; k < 6 && v.Len() > 0; k++ {
				v.SetSample(r.Intn(v.Len()), val())
			}
		case 1:
			m := r.Range(0, v.Len()+3)
			src := e.t.MakeSl(m)
			for i := 0; i < m; i++ {
				src.Set(i, val())
			}
			e.pair.Write(src, v)
		case 2:
			lens := make([]int, ch)
			for i := range lens {
				lens[i] = r.Range(-1, 2*frames+3) // -1: nil channel; also longer than the window
			}
			ss := e.t.MakeSS(lens)
			for ci := range lens {
				for i := 0; i < lens[ci]; i++ {
					ss.At(ci).Set(i, val())
				}
			}
			e.pair.WriteStriped(ss, v)
		case 3:
			wconv := e.convsD[r.Intn(len(e.convsD))]
			src := wconv.S.Alloc(signal.Allocator{Channels: ch, Length: r.Range(0, frames+2), Capacity: frames + 2})
			for i := 0; i < src.Len(); i++ {
				x := wconv.S.FromInt(int64(1 + (int(tag)+i)%100))
				if wconv.S.Kind == dyn.KFloat && i%2 == 0 {
					x = dyn.FloatVal(float64((int(tag)+i)%9-4) / 4) // in and beyond [-1,1]
				}
				src.SetSample(i, x)
			}
			wconv.Call(src, v)
		case 4:
			if frames > 0 {
				cv := v.Channel(r.Intn(ch))
				if r.Bool() {
					// the whole channel, as long as the view itself says it is
					for i, n := 0, cv.Length(); i < n; i++ {
						cv.SetSample(i, val())
					}
				} else {
					for k := 0; k < 4; k++ {
						cv.SetSample(r.Intn(frames), val())
					}
				}
			}
		case 5:
			// the window emptied (Slice(0,0) keeps its storage) and filled again
			// sample by sample with exactly the writer's own number of samples
			nv := v.Slice(0, 0)
			for i := 0; i < frames*ch; i++ {
				nv.AppendSample(val())
			}
		default:
			// a nested slice of the own range
			s := r.Range(0, frames)
			en := r.Range(s, frames)
			nv := v.Slice(s, en)
			for i := 0; i < nv.Len(); i++ {
				nv.SetSample(i, val())
			}
		}
		if doYield := r.Chance(1, 3); doYield && yield != nil { // always drawn: same stream with and without yields
			yield()
		}
	}
}

func c19Fill(b dyn.Buf, t *dyn.TypeOps) {
	all := b.RawAll()
	for i := 0; i < all.Len(); i++ {
		x := int64(1 + (i*37)%100)
		if t.Kind != dyn.KUint && i%3 == 0 {
			x = -x
		}
		v := t.FromInt(x)
		if t.Kind == dyn.KFloat && i%2 == 1 {
			v = dyn.FloatVal(float64(x%9) / 4) // samples inside, at and beyond full scale
		}
		all.Set(i, v)
	}
}

func runC19(c *core.Ctx) {
	if c.Mode == "selftest" {
		runRaceSelfTest(c)
		return
	}
	r := c.Rand(19)
	nCfg := c.Pick(16, 300)
	if c.Mode == "plain" {
		nCfg = c.Pick(40, 2500)
	}
	typeIDs := []int{5, 0, 2, 6, 11, 12} // uint8 int8 int32 uint16 float32 float64
	defer runtime.GOMAXPROCS(runtime.GOMAXPROCS(0))
	for ci := 0; ci < nCfg; ci++ {
		t := dyn.Types[typeIDs[(ci+c.Batch)%len(typeIDs)]]
		ch := []int{1, 2, 3, 8, 9, 17}[r.Intn(6)] // also more channels than any small fixed-size scratch array would hold
		frames := r.Range(24, 96)
		large := ci%8 == 5
		if large {
			// more than 65536 samples: paths that depend on the amount of data
			ch = 2 + r.Intn(2)
			frames = r.Range(33000, 36000)
		}
		asWindow := ci%2 == 1 // the shared buffer is itself a Slice view of a larger buffer
		asGrown := ci%4 == 2  // the shared buffer reached its size through a growing Append
		asPooled := ci%8 == 4 // the shared buffer comes from a pool allocator and no library call has written to it
		if asGrown && !large {
			ch = []int{3, 5, 7}[r.Intn(3)]
		}
		procs := []int{1, 4, 16}[(ci/2)%3]
		R := r.Range(2, 16)
		W := r.Range(1, 8)
		caseID := fmt.Sprintf("%s/cfg%d", c.Mode, ci)
		if !c.Want(caseID) {
			continue
		}
		e := &c19env{t: t, ch: ch, pair: t.SelfPair}
		// conversions with this type as source (readers) / destination (writers)
		for _, cv := range dyn.Convs {
			if cv.S == t {
				e.convsS = append(e.convsS, cv)
			}
			if cv.D == t {
				e.convsD = append(e.convsD, cv)
			}
		}
		if large {
			R, W = min(R, 4), min(W, 3)
		}
		cfgD := map[string]any{"type": t.Name, "channels": ch, "frames": frames, "GOMAXPROCS": procs, "readers": R, "writers": W, "build": c.Mode, "shared_buffer_is_a_slice_view": asWindow, "shared_buffer_grown_by_append": asGrown, "shared_buffer_from_pool": asPooled}
		runtime.GOMAXPROCS(procs)
		yield := func(rr *core.Rand) func() {
			return func() {
				switch rr.Intn(3) {
				case 0:
					runtime.Gosched()
				case 1:
					c11Spin(rr.Range(10, 500))
				default:
					time.Sleep(time.Duration(rr.Range(1, 10)) * time.Microsecond)
				}
			}
		}
		// in half of the configurations every kind of operation has already been
		// applied to the shared buffer ITSELF, by one goroutine, before the
		// concurrent phase starts (the other half starts on an untouched buffer)
		warm := ci%8 == 1 || ci%8 == 2 || ci%8 == 7 || ci%16 == 8
		warmUp := func(b dyn.Buf) dyn.Buf {
			if !warm {
				return b
			}
			n := b.Length()
			lens := make([]int, ch)
			for i := range lens {
				lens[i] = n
			}
			ss := t.MakeSS(lens)
			for ci2 := 0; ci2 < ch; ci2++ {
				for i := 0; i < n; i++ {
					ss.At(ci2).Set(i, t.FromInt(int64(1+(i+ci2)%50)))
				}
			}
			e.pair.WriteStriped(ss, b)
			e.pair.ReadStriped(b, ss)
			fl := t.MakeSl(b.Len())
			e.pair.Read(b, fl)
			e.pair.Write(fl, b)
			if b.Len() > 0 {
				b.SetSample(0, b.Sample(b.Len()-1))
				cv := b.Channel(ch - 1)
				cv.SetSample(0, cv.Sample(n-1))
			}
			if len(e.convsD) > 0 {
				wc := e.convsD[ci%len(e.convsD)]
				src := wc.S.Alloc(signal.Allocator{Channels: ch, Length: n, Capacity: n})
				for i := 0; i < src.Len(); i += 3 {
					src.SetSample(i, wc.S.FromInt(int64(1+i%40)))
				}
				wc.Call(src, b)
			}
			if len(e.convsS) > 0 {
				rc := e.convsS[ci%len(e.convsS)]
				rc.Call(b, rc.D.Alloc(signal.Allocator{Channels: ch, Length: n, Capacity: n}))
			}
			_ = b.Slice(0, n).Slice(0, n/2).Length()
			return b
		}
		mk0 := func() dyn.Buf {
			if asGrown {
				b := t.Alloc(signal.Allocator{Channels: ch, Length: 1, Capacity: 1})
				b.Append(t.Alloc(signal.Allocator{Channels: ch, Length: frames - 1, Capacity: frames - 1}))
				c19Fill(b, t) // through the hook: no accessor of the grown buffer has been called yet
				return b
			}
			if asPooled {
				pa := t.PoolAlloc(signal.Allocator{Channels: ch, Length: frames, Capacity: frames + 5})
				b := pa.Get()
				c19Fill(b, t) // through the hook
				return b
			}
			if asWindow {
				p := t.Alloc(signal.Allocator{Channels: ch, Length: frames + 3, Capacity: frames + 8})
				c19Fill(p, t)
				return p.Slice(2, 2+frames) // nothing has been called on this view yet
			}
			b := t.Alloc(signal.Allocator{Channels: ch, Length: frames, Capacity: frames + 5})
			c19Fill(b, t)
			return b
		}
		mk := func() dyn.Buf { return warmUp(mk0()) }
		if warm {
			c.Obs("configurations_whose_shared_buffer_was_used_before_the_concurrent_phase", 1)
		}
		nOps := c.Pick(40, 120)
		if large {
			nOps = 12
			c.Obs("configurations_with_more_than_65536_samples", 1)
		}
		if asWindow {
			c.Obs("configurations_sharing_a_slice_view", 1)
		}
		if asGrown {
			c.Obs("configurations_sharing_a_buffer_grown_by_append", 1)
		}
		if asPooled {
			c.Obs("configurations_sharing_an_untouched_pool_buffer", 1)
		}
		// ---------------- phase A: readers only
		{
			shared := mk()
			seqA := mk() // the sequential reference runs on a separate, identical buffer: the shared one stays untouched ("cold") until the goroutines start
			want := make([]uint64, R)
			// the reference is computed AFTER the concurrent run (see below), so
			// that whatever the library initialises lazily on first use - per
			// buffer or per process - is first touched by the concurrent readers
			got := make([]uint64, R)
			var wg sync.WaitGroup
			start := make(chan struct{})
			for g := 0; g < R; g++ {
				wg.Add(1)
				go func(g int) {
					defer wg.Done()
					<-start
					yr := core.NewRand(c.Seed, 77, uint64(g))
					got[g] = e.readerWork(shared, frames, true, core.NewRand(c.Seed, core.HashStr(caseID), uint64(g)), nOps, yield(yr))
				}(g)
			}
			close(start)
			wg.Wait()
			for g := 0; g < R; g++ {
				want[g] = e.readerWork(seqA, frames, true, core.NewRand(c.Seed, core.HashStr(caseID), uint64(g)), nOps, nil)
			}
			for g := 0; g < R; g++ {
				c.Eval(1)
				c.Distinct(core.NewHash().Str(caseID).Str("A").Int(g).Sum())
				if got[g] != want[g] {
					c.Violate("readers["+t.Name+"]|digest", caseID, fmt.Sprintf("phase A: reader %d observed a different result concurrently (digest %#x) than sequentially (%#x)", g, got[g], want[g]), cfgD)
				}
			}
			// read-only work leaves every sample of the storage as it was
			pristine := mk()
			for _, bb := range []dyn.Buf{shared, seqA} {
				if bb.RawLen() != pristine.RawLen() || bb.RawCap() != pristine.RawCap() {
					c.Violate("readers["+t.Name+"]|shape", caseID, "phase A: the buffer changed shape under read-only use", cfgD)
					break
				}
				for i := 0; i < bb.RawCap(); i++ {
					if a, b := bb.RawAt(i), pristine.RawAt(i); !a.Same(b) {
						c.Violate("readers["+t.Name+"]|contents", caseID, fmt.Sprintf("phase A: position %d (frame %d of %d, capacity %d) was %v and is %v after read-only use", i, i/ch, frames, bb.Capacity(), b, a), cfgD)
						break
					}
				}
			}
			c.Obs("reader_work_lists", int64(R))
			c.Obs("reader_operations", int64(R*nOps))
		}
		// ---------------- phase B: readers on [0,ro) + writers on disjoint ranges
		{
			ro := frames / 3
			bounds := []int{ro}
			for wI := 1; wI < W; wI++ {
				bounds = append(bounds, ro+(frames-ro)*wI/W)
			}
			bounds = append(bounds, frames)
			if W >= 2 && ci%3 == 0 {
				// one writer's frame range is empty (its window has length 0 and the
				// other writers' frames as spare capacity behind it)
				bounds[1] = bounds[0]
				c.Obs("configurations_with_a_writer_on_an_empty_frame_range", 1)
			}
			shared := mk()
			seq := mk()
			wantR := make([]uint64, R)
			for g := 0; g < R; g++ {
				wantR[g] = e.readerWork(seq, ro, false, core.NewRand(c.Seed, core.HashStr(caseID), 100+uint64(g)), nOps, nil)
			}
			seqPanic := false
			for wI := 0; wI < W; wI++ {
				if p, msg := core.Guard(func() {
					e.writerWork(seq, bounds[wI], bounds[wI+1], core.NewRand(c.Seed, core.HashStr(caseID), 200+uint64(wI)), nOps, int64(wI+1), nil)
				}); p {
					c.Violate("writers["+t.Name+"]|panic", caseID, fmt.Sprintf("a writer confined to its own Slice(%d,%d) panicked in the sequential reference run: %s", bounds[wI], bounds[wI+1], msg), cfgD)
					seqPanic = true
				}
			}
			if seqPanic {
				continue
			}
			gotR := make([]uint64, R)
			var wg sync.WaitGroup
			start := make(chan struct{})
			for g := 0; g < R; g++ {
				wg.Add(1)
				go func(g int) {
					defer wg.Done()
					<-start
					gotR[g] = e.readerWork(shared, ro, false, core.NewRand(c.Seed, core.HashStr(caseID), 100+uint64(g)), nOps, yield(core.NewRand(c.Seed, 78, uint64(g))))
				}(g)
			}
			for wI := 0; wI < W; wI++ {
				wg.Add(1)
				go func(wI int) {
					defer wg.Done()
					<-start
					e.writerWork(shared, bounds[wI], bounds[wI+1], core.NewRand(c.Seed, core.HashStr(caseID), 200+uint64(wI)), nOps, int64(wI+1), yield(core.NewRand(c.Seed, 79, uint64(wI))))
				}(wI)
			}
			close(start)
			wg.Wait()
			for g := 0; g < R; g++ {
				c.Eval(1)
				c.Distinct(core.NewHash().Str(caseID).Str("B-r").Int(g).Sum())
				if gotR[g] != wantR[g] {
					c.Violate("readers["+t.Name+"]|digest", caseID, fmt.Sprintf("phase B: reader %d of the read-only range observed digest %#x, sequentially %#x", g, gotR[g], wantR[g]), cfgD)
				}
			}
			for wI := 0; wI < W; wI++ {
				c.Eval(1)
				c.Distinct(core.NewHash().Str(caseID).Str("B-w").Int(wI).Sum())
			}
			if shared.RawLen() != seq.RawLen() || shared.RawCap() != seq.RawCap() {
				c.Violate("writers["+t.Name+"]|shape", caseID, "shared buffer changed shape", cfgD)
			} else {
				for i := 0; i < shared.RawCap(); i++ {
					if a, b := shared.RawAt(i), seq.RawAt(i); !a.Same(b) {
						fr := i / ch
						region := "read-only range"
						for wI := 0; wI < W; wI++ {
							if fr >= bounds[wI] && fr < bounds[wI+1] {
								region = fmt.Sprintf("range of writer %d", wI)
							}
						}
						if fr >= frames {
							region = "spare capacity beyond the length"
						}
						c.Violate("writers["+t.Name+"]|contents", caseID, fmt.Sprintf("phase B: position %d (frame %d, %s) is %v after the concurrent run, %v after the sequential one", i, fr, region, a, b), cfgD)
						break
					}
				}
			}
			c.Obs("writer_work_lists", int64(W))
			c.Obs("writer_operations", int64(W*nOps))
			c.Obs("cells_compared_with_sequential_run", int64(shared.RawCap()))
		}
		c.Obs("configurations", 1)
		if ci%10 == 0 {
			c.Sample("configuration", cfgD)
		}
	}
	c.Floor("configurations_sharing_a_slice_view", 4)
	c.Floor("configurations_with_more_than_65536_samples", 1)
	c.Floor("configurations", 10)
	c.Floor("writer_operations", 1000)
	c.Floor("reader_operations", 1000)
}

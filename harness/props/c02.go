package props

import (
	"fmt"
	"math"

	"pipelined.dev/signal"
	"verifharness/core"
	"verifharness/dyn"
	"verifharness/mon"
)

func init() {
	register(&Def{
		ID:    "C02",
		Level: "exploration",
		Rule: "every element type x channel counts 1..8 x every root shape (L<=K<=bound, also non-frame-aligned lengths) x ALL (start,end) in [-2,K+2]^2 on the root and recursively on every valid child up to nesting depth 4, plus hostile 64-bit integers chosen so that channels*start or channels*end wraps into the valid range; " +
			"each Slice call is compared with the reference model (validity decided without multiplication; shape, base address = parent base + C*start*size, all cells over the child's capacity) and stamps are written through child and parent and looked for through the other; " +
			"distinct = distinct (type, C, root shape, nesting path, start, end); non-trivial = the call either must panic or yields a view with capacity > 0; " +
			"also: every pair of hostile integers as (start,end)",
		Assume: []string{"panic messages are not compared, only panic / no panic", "address identity from the verif hook; all buffers stay pinned during a case"},
		Plan:   func(tier string) []Batch { return split("slice", 8, 900) },
		Run:    runC02,
	})
}

type c02run struct {
	c      *core.Ctx
	t      *dyn.TypeOps
	w      *mon.World
	inst   string
	caseID string
	root   map[string]any
	depth  int
	writes int
}

func hostileInts(ch int) []int {
	hs := []int{math.MinInt, math.MinInt + 1, -1 << 62, -1 << 32, -3, -1, math.MaxInt, math.MaxInt - 1, 1 << 62, 1<<62 + 1, 1 << 32, 1 << 31}
	c := ch
	for d := -2; d <= 2; d++ {
		hs = append(hs, math.MaxInt/c+d)
		hs = append(hs, int((uint64(1)<<63)/uint64(c))+d)
		// ceil(2^64 / c): c*x wraps to a small value
		q := (math.MaxUint64 / uint64(c)) + 1
		hs = append(hs, int(q)+d)
		for m := uint64(2); m <= 3; m++ {
			hs = append(hs, int(q*m)+d)
		}
	}
	return hs
}

func (r *c02run) try(v *mon.View, s, e int, path string, nest int) {
	c := r.c
	c.Eval(1)
	valid := v.M.SliceValid(s, e)
	d := map[string]any{"type": r.t.Name, "root": r.root, "path": path, "parent": fmt.Sprintf("off=%d len=%d cap=%d C=%d", v.M.Off, v.M.Len, v.M.Cap, v.M.C), "start": s, "end": e, "valid": valid}
	var nb dyn.Buf
	panicked, msg := core.Guard(func() { nb = v.B.Slice(s, e) })
	sig := core.NewHash().Str(r.t.Name).Str(fmt.Sprint(r.root)).Str(path).Int(s).Int(e).Sum()
	if !valid {
		c.Distinct(sig)
		c.Obs("invalid_ranges", 1)
		if !panicked {
			cls := "out-of-range"
			if s > 8 || s < -8 || e > 1<<20 || e < -8 {
				cls = "overflowing"
			}
			c.Violate(r.inst+"|no-panic|"+cls, r.caseID, fmt.Sprintf("Slice(%d,%d) on a view with %d frames capacity returned a view %v instead of panicking", s, e, v.M.Cap/v.M.C, mon.ShapeOf(nb)), d)
		} else {
			c.Obs("panics_as_required", 1)
		}
		if ps := r.w.CheckView(v); len(ps) > 0 {
			report(c, r.inst+"|parent-changed", r.caseID, ps, d)
		}
		return
	}
	c.Obs("valid_ranges", 1)
	if panicked {
		c.Violate(r.inst+"|in-range-panic", r.caseID, fmt.Sprintf("Slice(%d,%d) within capacity %d frames panicked: %s", s, e, v.M.Cap/v.M.C, msg), d)
		return
	}
	// the same range again: every call yields its own view object
	if nb2 := v.B.Slice(s, e); nb2.Same(nb) || nb2.HeaderAddr() == nb.HeaderAddr() {
		c.Violate(r.inst+"|same-object", r.caseID, fmt.Sprintf("two calls of Slice(%d,%d) on one buffer returned the same view object", s, e), d)
		return
	} else if nb2.RawBase() != nb.RawBase() || nb2.RawLen() != nb.RawLen() || nb2.RawCap() != nb.RawCap() {
		c.Violate(r.inst+"|repeat", r.caseID, fmt.Sprintf("a second Slice(%d,%d) gives a different window than the first", s, e), d)
		return
	}
	nv := &mon.View{M: v.M.Slice(s, e), B: nb, Name: path + fmt.Sprintf("[%d:%d]", s, e)}
	if nv.M.Cap > 0 {
		c.Distinct(sig)
	}
	c.Sample("slice", d)
	r.w.Views = append(r.w.Views, nv)
	defer func() { r.w.Views = r.w.Views[:len(r.w.Views)-1] }()
	if ps := r.w.CheckView(nv); len(ps) > 0 {
		report(c, r.inst, r.caseID, ps, d)
		return
	}
	if ps := r.w.CheckView(v); len(ps) > 0 {
		report(c, r.inst+"|parent-changed", r.caseID, ps, d)
		return
	}
	c.Obs("cells_compared", int64(nv.M.Cap))
	// additive composition against the root is what the model offset encodes;
	// write through the child, look through everything else, and back
	if nv.M.Len > 0 {
		for _, i := range []int{0, nv.M.Len - 1, nv.M.Len / 2} {
			r.w.SetSample(nv, i, r.w.NextStamp())
			r.writes++
		}
		// through the parent, at a position inside the child's capacity window
		if pi := nv.M.Off - v.M.Off; pi < v.M.Len {
			r.w.SetSample(v, pi, r.w.NextStamp())
		}
		c.Obs("stamp_writes", 4)
		if ps := r.w.CheckAll(); len(ps) > 0 {
			report(c, r.inst+"|sharing", r.caseID, ps, d)
			return
		}
	}
	// a view beyond the length: end may reach the capacity
	if e > (v.M.Len+v.M.C-1)/v.M.C {
		c.Obs("slices_beyond_length", 1)
	}
	if nest < r.depth {
		frames := nv.M.Cap / nv.M.C
		for s2 := -1; s2 <= frames+1; s2++ {
			for e2 := -1; e2 <= frames+1; e2++ {
				if nest >= 2 && !(nv.M.SliceValid(s2, e2)) && (s2+e2)%3 != 0 {
					continue // deep levels: all valid ranges, a third of the invalid ones
				}
				r.try(nv, s2, e2, nv.Name, nest+1)
			}
		}
		c.ObsMax("max_nesting_depth", int64(nest+1))
	}
}

func runC02(c *core.Ctx) {
	maxK := c.Pick(3, 5)
	depth := c.Pick(3, 4)
	n := 0
	for _, t := range dyn.ElemTypes() {
		for ch := 1; ch <= 8; ch++ {
			if c.Quick() && ch > 4 && ch != 8 {
				continue
			}
			for k := 0; k <= maxK; k++ {
				for l := 0; l <= k; l++ {
					for _, extra := range []int{0, 1} {
						if extra > 0 && (l >= k || ch == 1) {
							continue
						}
						n++
						if !c.Mine(n) {
							continue
						}
						caseID := fmt.Sprintf("%s/C%d/L%d/K%d/x%d", t.Name, ch, l, k, extra)
						if !c.Want(caseID) {
							continue
						}
						w := mon.NewWorld(t)
						b := t.Alloc(signal.Allocator{Channels: ch, Length: l, Capacity: k})
						all := b.RawAll()
						for i := 0; i < all.Len(); i++ {
							all.Set(i, w.NextStamp())
						}
						for i := 0; i < extra; i++ {
							b.AppendSample(w.NextStamp())
						}
						root := w.Adopt(b, "root")
						r := &c02run{c: c, t: t, w: w, inst: "Slice[" + t.Name + "]", caseID: caseID, depth: depth,
							root: map[string]any{"channels": ch, "length": l, "capacity": k, "extra_samples": extra}}
						// a smaller element-type set gets the deep nesting; all get depth 2
						if t.ID%4 != 0 && t.ID != 11 {
							r.depth = 2
						}
						for s := -2; s <= k+2; s++ {
							for e := -2; e <= k+2; e++ {
								r.try(root, s, e, "root", 1)
							}
						}
						// hostile integers on the root and on one window
						hs := hostileInts(ch)
						views := []*mon.View{root}
						if k >= 2 {
							views = append(views, w.Slice(root, 1, k, "root[1:k]"))
						}
						for _, v := range views {
							frames := v.M.Cap / v.M.C
							for _, hv := range hs {
								for _, small := range []int{0, 1, frames, frames + 1, -1} {
									r.try(v, hv, small, v.Name, depth) // no nesting below these
									r.try(v, small, hv, v.Name, depth)
								}
								r.try(v, hv, hv, v.Name, depth)
								r.try(v, hv, hv+1, v.Name, depth)
							}
							c.Obs("hostile_calls", int64(len(hs)*12))
							// every pair of hostile integers (differences and
							// products that wrap), on the full-length shapes
							if l == k && extra == 0 && (k == maxK || k == 1) {
								for _, h1 := range hs {
									for _, h2 := range hs {
										r.try(v, h1, h2, v.Name, depth)
									}
								}
								c.Obs("hostile_pair_calls", int64(len(hs)*len(hs)))
							}
						}
					}
				}
			}
		}
	}
	// larger seeded shapes: nested random walks
	rnd := c.Rand(2)
	for i := 0; i < c.Pick(300, 5000); i++ {
		t := dyn.Types[rnd.Intn(dyn.NBuiltin)]
		ch := rnd.Range(1, 8)
		k := rnd.Range(4, 64)
		if i%10 == 9 {
			k = rnd.Range(300, 5000)
		}
		l := rnd.Range(0, k)
		caseID := fmt.Sprintf("walk/%d", i)
		if !c.Want(caseID) {
			continue
		}
		w := mon.NewWorld(t)
		b := t.Alloc(signal.Allocator{Channels: ch, Length: l, Capacity: k})
		all := b.RawAll()
		for j := 0; j < all.Len(); j++ {
			all.Set(j, w.NextStamp())
		}
		root := w.Adopt(b, "root")
		r := &c02run{c: c, t: t, w: w, inst: "Slice[" + t.Name + "]", caseID: caseID, depth: 0,
			root: map[string]any{"channels": ch, "length": l, "capacity": k, "walk": i}}
		cur := root
		for step := 0; step < 6; step++ {
			frames := cur.M.Cap / cur.M.C
			s := rnd.Range(0, frames)
			e := rnd.Range(s, frames)
			r.try(cur, s, e, cur.Name, 1)
			if rnd.Chance(1, 4) {
				r.try(cur, rnd.Range(-2, frames+3), rnd.Range(-2, frames+3), cur.Name, 1)
			}
			cur = w.Slice(cur, s, e, cur.Name+fmt.Sprintf("[%d:%d]", s, e))
			if ps := w.CheckAll(); len(ps) > 0 {
				report(c, r.inst+"|walk", caseID, ps, r.root)
				break
			}
		}
		c.Obs("random_walks", 1)
	}
	// the same range sliced again after the parent moved to new storage (a
	// growing Append): the new window must be a window of the parent's
	// CURRENT storage
	gi := 0
	for _, t := range dyn.ElemTypes() {
		for ch := 1; ch <= 3; ch++ {
			for _, rng := range [][2]int{{0, 2}, {1, 3}, {2, 2}, {0, 4}} {
				gi++
				if !c.Mine(gi) {
					continue
				}
				caseID := fmt.Sprintf("regrow/%s/C%d/%d-%d", t.Name, ch, rng[0], rng[1])
				if !c.Want(caseID) {
					continue
				}
				inst := "Slice[" + t.Name + "]"
				d := map[string]any{"type": t.Name, "channels": ch, "range": rng, "scenario": "w1 := p.Slice(s,e); p.Append(src beyond p's capacity); w2 := p.Slice(s,e)"}
				w := mon.NewWorld(t)
				pb := t.Alloc(signal.Allocator{Channels: ch, Length: 4, Capacity: 4})
				stampAll(w, pb)
				pv := w.Adopt(pb, "p")
				w1 := w.Slice(pv, rng[0], rng[1], "w1")
				src := t.Alloc(signal.Allocator{Channels: ch, Length: 3, Capacity: 3})
				stampAll(w, src)
				sv := w.Adopt(src, "src")
				c.Eval(1)
				c.Distinct(core.NewHash().Str(caseID).Sum())
				if ps := w.Append(pv, sv); len(ps) > 0 {
					report(c, inst+"|regrow", caseID, ps, d)
					continue
				}
				w2 := w.Slice(pv, rng[0], rng[1], "w2")
				if w2.M.Len > 0 {
					w.SetSample(w2, 0, w.NextStamp())
				}
				if ps := w.CheckAll(); len(ps) > 0 {
					report(c, inst+"|slice-after-growth", caseID, ps, d)
					continue
				}
				// and a window of the OLD window (which stayed on the old storage):
				// it is a window of that old storage, whatever the parent did since
				w3 := w.Slice(w1, 0, w1.M.Cap/ch, "w1[0:cap]")
				if w3.M.Len > 0 {
					w.SetSample(w3, w3.M.Len-1, w.NextStamp())
				}
				if ps := w.CheckAll(); len(ps) > 0 {
					report(c, inst+"|window-of-a-window-left-behind-by-growth", caseID, ps, d)
				}
				c.Obs("slices_repeated_after_parent_growth", 1)
			}
		}
	}
	// every channel count up to 130 (arithmetic on the channel count that is
	// exact only for small or special counts): a few ranges around the capacity
	for ti, t := range dyn.ElemTypes() {
		if ti%5 != 3 && t.Name != "float32" {
			continue
		}
		for ch := 9; ch <= 130; ch++ {
			gi++
			if !c.Mine(gi) {
				continue
			}
			for _, k := range []int{3, 4, 7} {
				caseID := fmt.Sprintf("channels/%s/C%d/K%d", t.Name, ch, k)
				if !c.Want(caseID) {
					continue
				}
				w := mon.NewWorld(t)
				b := t.Alloc(signal.Allocator{Channels: ch, Length: k - 1, Capacity: k})
				stampAll(w, b)
				root := w.Adopt(b, "root")
				r := &c02run{c: c, t: t, w: w, inst: "Slice[" + t.Name + "]", caseID: caseID, depth: 2,
					root: map[string]any{"channels": ch, "length": k - 1, "capacity": k}}
				for _, se := range [][2]int{{0, k}, {1, k}, {k, k}, {k - 1, k}, {0, k + 1}, {1, k - 1}, {k + 1, k + 1}} {
					r.try(root, se[0], se[1], "root", r.depth)
				}
				c.Obs("ranges_on_parents_with_9_to_130_channels", 7)
			}
		}
	}
	// tiny windows of very large parents (several hundred thousand samples):
	// tails, and short windows in the middle with a long capacity behind them
	for ti, t := range dyn.ElemTypes() {
		if ti%4 != 2 && t.Name != "int16" {
			continue
		}
		gi++
		if !c.Mine(gi) {
			continue
		}
		ch := 1 + ti%3
		k := 300007 / ch
		caseID := fmt.Sprintf("huge/%s/C%d/K%d", t.Name, ch, k)
		if !c.Want(caseID) {
			continue
		}
		w := mon.NewWorld(t)
		b := t.Alloc(signal.Allocator{Channels: ch, Length: k - 5, Capacity: k})
		stampAll(w, b)
		root := w.Adopt(b, "root")
		r := &c02run{c: c, t: t, w: w, inst: "Slice[" + t.Name + "]", caseID: caseID, depth: 2,
			root: map[string]any{"channels": ch, "length": k - 5, "capacity": k}}
		for _, se := range [][2]int{{k - 8, k - 6}, {k - 2, k}, {k / 2, k/2 + 3}, {0, 2}, {k - 40, k - 40}, {7, k - 9}} {
			r.try(root, se[0], se[1], "root", r.depth) // no nested enumeration below these
		}
		c.Obs("tiny_windows_of_parents_with_300000_samples", 6)
	}
	c.Floor("tiny_windows_of_parents_with_300000_samples", 6)
	// parents that reached their shape through a growing Append: the full
	// (start,end) sweep, whatever capacity the growth produced
	for _, t := range dyn.ElemTypes() {
		for ch := 1; ch <= 7; ch++ {
			for _, sz := range [][2]int{{2, 1}, {1, 2}, {4, 3}, {3, 5}} {
				gi++
				if !c.Mine(gi) {
					continue
				}
				if c.Quick() && (ch == 4 || ch == 6) {
					continue
				}
				caseID := fmt.Sprintf("grown-root/%s/C%d/%d+%d", t.Name, ch, sz[0], sz[1])
				if !c.Want(caseID) {
					continue
				}
				w := mon.NewWorld(t)
				pb := t.Alloc(signal.Allocator{Channels: ch, Length: sz[0], Capacity: sz[0]})
				stampAll(w, pb)
				pv := w.Adopt(pb, "p")
				src := t.Alloc(signal.Allocator{Channels: ch, Length: sz[1], Capacity: sz[1]})
				stampAll(w, src)
				sv := w.Adopt(src, "src")
				r := &c02run{c: c, t: t, w: w, inst: "Slice[" + t.Name + "]", caseID: caseID, depth: 2,
					root: map[string]any{"channels": ch, "frames_before_growth": sz[0], "frames_appended": sz[1], "scenario": "p grown by Append, then sliced"}}
				if ps := w.Append(pv, sv); len(ps) > 0 {
					report(c, r.inst+"|regrow", caseID, ps, r.root)
					continue
				}
				frames := pv.M.Cap / pv.M.C
				for s := -1; s <= frames+2; s++ {
					for e := max(s-1, frames-3); e <= frames+2; e++ {
						r.try(pv, s, e, "grown", 1)
					}
				}
				c.Obs("grown_parents_swept", 1)
			}
		}
	}
	c.Floor("grown_parents_swept", 50)
	c.Floor("slices_repeated_after_parent_growth", 50)
	c.Floor("panics_as_required", 100)
	c.Floor("valid_ranges", 100)
	c.Floor("slices_beyond_length", 10)
	c.Floor("hostile_calls", 100)
}

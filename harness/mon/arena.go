package mon

import (
	"fmt"

	"pipelined.dev/signal"
	"verifharness/dyn"
)

// Canary returns a non-zero, position-dependent value representable in the
// element type.
func Canary(t *dyn.TypeInfo, pos, salt int) dyn.Val {
	m := int64(1000003)
	switch {
	case t.Bits == 8:
		m = 101
	case t.Bits == 16:
		m = 30011
	}
	n := 1 + (int64(pos)*31+int64(salt)*17+7)%m
	if t.Kind != dyn.KUint && (pos+salt)%3 == 1 {
		n = -n
	}
	if t.Kind == dyn.KFloat && pos%5 == 2 {
		return dyn.FloatVal(float64(n) + 0.5)
	}
	return t.FromInt(n)
}

// Arena is a parent buffer whose whole capacity is filled with canaries and
// mirrored by a shadow; the buffer under test is a window of it. After a
// monitored call the whole arena is re-read through the hook (not through
// the library) and compared with shadow + expected effect.
type Arena struct {
	T      *dyn.TypeOps
	P      dyn.Buf
	C, K   int
	Shadow []dyn.Val
	root   dyn.Sl
	base   uintptr
	salt   int
}

// NewArena allocates a parent with C channels and K frames (length = capacity)
// and fills it with canaries.
func NewArena(t *dyn.TypeOps, c, k, salt int) *Arena {
	p := t.Alloc(signal.Allocator{Channels: c, Length: k, Capacity: k})
	a := &Arena{T: t, P: p, C: c, K: k, root: p.RawAll(), base: p.RawBase(), salt: salt}
	a.Shadow = make([]dyn.Val, c*k)
	for i := range a.Shadow {
		v := Canary(t.TypeInfo, i, salt)
		a.root.Set(i, v)
		a.Shadow[i] = a.root.Get(i)
	}
	return a
}

// Win is a window of an arena.
type Win struct {
	B   dyn.Buf
	Off int // parent position of the window's position 0
	A   *Arena
}

// Window returns P.Slice(s,e) and then makes its length non-frame-aligned by
// appending `extra` samples (only possible when the window has spare
// capacity). The appended samples are canaries too.
func (a *Arena) Window(s, e, extra, salt int) *Win {
	// on every other arena the accessors and the channel views of the
	// larger buffer are used before the window is derived from it
	if (a.salt+salt)%2 == 1 {
		n := a.P.Length() + a.P.Capacity() + a.P.Len() + a.P.Cap()
		for ci := 0; ci < a.C; ci++ {
			cv := a.P.Channel(ci)
			n += cv.Length() + cv.Capacity()
			if a.K > 0 {
				_ = cv.Sample(0)
			}
		}
		_ = n
	}
	// the same window reached in different ways: directly, as a short window
	// that is re-extended into its spare capacity, or through an outer window
	var b dyn.Buf
	switch (s + e + salt + a.salt) % 3 {
	case 0:
		b = a.P.Slice(s, e)
	case 1:
		b = a.P.Slice(s, s+(e-s)/2).Slice(0, e-s)
	default:
		b = a.P.Slice(s/2, a.K).Slice(s-s/2, e-s/2)
	}
	w := &Win{B: b, Off: a.C * s, A: a}
	for i := 0; i < extra; i++ {
		if b.Len() >= b.Cap() {
			break
		}
		pos := w.Off + b.Len()
		v := Canary(a.T.TypeInfo, pos, salt+1000)
		b.AppendSample(v)
		a.Shadow[pos] = a.root.Get(pos)
		_ = v
	}
	return w
}

// Expect records that window position i must now hold v.
func (w *Win) Expect(i int, v dyn.Val) { w.A.Shadow[w.Off+i] = v }

// Shape is a snapshot of the exported shape of a buffer.
type Shape struct {
	Channels, Len, Cap, Length, Capacity, Depth int
	Base                                        uintptr
	RawLen, RawCap                              int
}

func ShapeOf(b dyn.Buf) Shape {
	return Shape{b.Channels(), b.Len(), b.Cap(), b.Length(), b.Capacity(), b.BitDepth(), b.RawBase(), b.RawLen(), b.RawCap()}
}

func (s Shape) String() string {
	return fmt.Sprintf("{ch=%d len=%d cap=%d length=%d capacity=%d depth=%d}", s.Channels, s.Len, s.Cap, s.Length, s.Capacity, s.Depth)
}

// Verify compares the whole arena with the shadow; returns up to 4 problems.
func (a *Arena) Verify() []Problem {
	var ps []Problem
	if a.P.Len() != a.C*a.K || a.P.Cap() != a.C*a.K || a.P.RawBase() != a.base {
		ps = append(ps, Problem{"shape", fmt.Sprintf("arena parent changed shape: %v", ShapeOf(a.P))})
	}
	bad := 0
	for i, want := range a.Shadow {
		if got := a.root.Get(i); !got.Same(want) {
			if bad < 4 {
				ps = append(ps, Problem{"cell", fmt.Sprintf("arena position %d (frame %d ch %d) = %v, expected %v", i, i/a.C, i%a.C, got, want)})
			}
			bad++
		}
	}
	if bad > 4 {
		ps = append(ps, Problem{"cell", fmt.Sprintf("%d arena cells differ in total", bad)})
	}
	return ps
}

// SlShadow is a caller-side slice with a sentinel fill and a copy.
type SlShadow struct {
	S    dyn.Sl
	Want []dyn.Val
}

// NewSl makes a slice of n elements (n<0: nil) filled by fill(i).
func NewSl(t *dyn.TypeOps, n int, fill func(i int) dyn.Val) *SlShadow {
	s := t.MakeSl(n)
	sh := &SlShadow{S: s}
	for i := 0; i < s.Len(); i++ {
		s.Set(i, fill(i))
		sh.Want = append(sh.Want, s.Get(i))
	}
	return sh
}

func (s *SlShadow) Verify(name string) []Problem {
	var ps []Problem
	if s.S.Len() != len(s.Want) {
		return []Problem{{"caller-slice", fmt.Sprintf("%s: length changed %d -> %d", name, len(s.Want), s.S.Len())}}
	}
	for i, w := range s.Want {
		if g := s.S.Get(i); !g.Same(w) {
			ps = append(ps, Problem{"caller-slice", fmt.Sprintf("%s[%d] = %v, expected %v", name, i, g, w)})
			if len(ps) >= 3 {
				break
			}
		}
	}
	return ps
}

// Package mon holds the monitor building blocks shared by several
// properties: the reference model of views over plain Go slices, the storage
// registry (address identity from the verif hook), and the canary arena.
package mon

import (
	"fmt"
	"math"

	"verifharness/dyn"
)

// Storage models one backing array as a plain Go slice of values.
type Storage struct {
	ID    int
	Cells []dyn.Val
	Base  uintptr // address of element 0 of the real array (from the hook)
	Size  int     // element size in bytes
	Root  dyn.Sl  // the real array over its whole capacity (pins it: addresses are never recycled)
}

// MV is the model of one view: a window of a storage.
type MV struct {
	St            *Storage
	Off, Len, Cap int
	C             int
}

// View pairs a model view with the real buffer it mirrors.
type View struct {
	M    MV
	B    dyn.Buf
	Name string
}

// World is a set of storages and live views of one element type.
type World struct {
	T        *dyn.TypeOps
	Storages []*Storage
	Views    []*View
	nextID   int
	Stamp    int64
	// counters
	Growths, InPlace, AlignMattered, MultiViewWrites int64
}

func NewWorld(t *dyn.TypeOps) *World { return &World{T: t} }

func CeilDiv(a, b int) int {
	if b == 0 {
		return 0
	}
	return (a + b - 1) / b
}

// Adopt registers a freshly allocated real buffer (its whole capacity is
// read through the hook) as a new storage with one view.
func (w *World) Adopt(b dyn.Buf, name string) *View {
	st := &Storage{ID: w.nextID, Base: b.RawBase(), Size: w.T.SizeOf, Root: b.RawAll()}
	w.nextID++
	st.Cells = make([]dyn.Val, b.RawCap())
	for i := range st.Cells {
		st.Cells[i] = b.RawAt(i)
	}
	w.Storages = append(w.Storages, st)
	v := &View{M: MV{St: st, Off: 0, Len: b.RawLen(), Cap: b.RawCap(), C: b.Channels()}, B: b, Name: name}
	w.Views = append(w.Views, v)
	return v
}

// NextStamp returns a fresh value, unique within the world for element types
// wide enough to hold the counter and cycling through 1..100 otherwise.
func (w *World) NextStamp() dyn.Val {
	w.Stamp++
	n := w.Stamp
	if n%5 == 0 {
		// every fifth written value is zero: a store that is skipped or
		// special-cased for the zero value must be visible too
		return w.T.FromInt(0)
	}
	if n%17 == 0 {
		// value classes at the edge of the type: the bounds of integer types,
		// +-Inf for floats
		neg := n%34 == 0
		switch w.T.Kind {
		case dyn.KInt:
			if neg {
				return dyn.IntVal(w.T.MinI())
			}
			return dyn.IntVal(w.T.MaxI())
		case dyn.KUint:
			return dyn.UintVal(w.T.MaxU())
		default:
			if neg {
				return dyn.FloatVal(math.Inf(-1))
			}
			return dyn.FloatVal(math.Inf(1))
		}
	}
	if n%13 == 0 && w.T.Kind == dyn.KFloat {
		// floats of tiny magnitude (subnormal in the element type, or normal
		// but far below single-precision range) and the negative zero: a store
		// that "cleans up" such values is not a store of the value
		var tiny []float64
		if w.T.Bits == 32 {
			tiny = []float64{float64(math.Float32frombits(1)), float64(math.Float32frombits(0x00400000)), float64(float32(1e-40)), float64(math.Float32frombits(0x00800000))}
		} else {
			tiny = []float64{math.SmallestNonzeroFloat64, 1e-310, 1e-300, 1e-40, 0x1p-126, 0x1p-1022}
		}
		k := int(n / 13)
		v := tiny[k%len(tiny)]
		switch k % 5 {
		case 1, 3:
			v = -v
		case 4:
			v = math.Copysign(0, -1)
		}
		return dyn.FloatVal(v)
	}
	switch {
	case w.T.Bits == 8:
		n = 1 + (n-1)%100
	case w.T.Bits == 16:
		n = 1 + (n-1)%30000
	case w.T.Kind == dyn.KFloat && w.T.Bits == 32:
		n = 1 + (n-1)%(1<<23)
	}
	return w.T.FromInt(n)
}

// Problem is one disagreement between model and implementation.
type Problem struct {
	Kind string
	Msg  string
}

func (p Problem) String() string { return p.Kind + ": " + p.Msg }

// CheckView compares one view against the model over length and capacity.
func (w *World) CheckView(v *View) []Problem {
	var ps []Problem
	add := func(kind, f string, a ...any) { ps = append(ps, Problem{kind, v.Name + ": " + fmt.Sprintf(f, a...)}) }
	m, b := v.M, v.B
	if b.Channels() != m.C {
		add("shape", "Channels=%d want %d", b.Channels(), m.C)
	}
	if b.Len() != m.Len {
		add("shape", "Len=%d want %d", b.Len(), m.Len)
	}
	if b.Cap() != m.Cap {
		add("shape", "Cap=%d want %d", b.Cap(), m.Cap)
	}
	if m.C > 0 {
		if b.Length() != CeilDiv(m.Len, m.C) {
			add("shape", "Length=%d want %d", b.Length(), CeilDiv(m.Len, m.C))
		}
		if b.Capacity() != m.Cap/m.C {
			add("shape", "Capacity=%d want %d", b.Capacity(), m.Cap/m.C)
		}
	}
	if b.BitDepth() != w.T.Bits {
		add("depth", "BitDepth=%d want %d", b.BitDepth(), w.T.Bits)
	}
	if b.RawLen() != m.Len || b.RawCap() != m.Cap {
		add("shape", "raw len/cap=%d/%d want %d/%d", b.RawLen(), b.RawCap(), m.Len, m.Cap)
		return ps
	}
	if m.Cap > 0 {
		want := m.St.Base + uintptr(m.Off*m.St.Size)
		if b.RawBase() != want {
			add("storage", "base address %#x, model says storage %d offset %d = %#x", b.RawBase(), m.St.ID, m.Off, want)
		}
	}
	bad := 0
	for i := 0; i < m.Cap; i++ {
		got := b.RawAt(i)
		if !got.Same(m.St.Cells[m.Off+i]) {
			if bad < 3 {
				add("cell", "position %d (capacity view) = %v, model %v", i, got, m.St.Cells[m.Off+i])
			}
			bad++
		}
		if i < m.Len && b.Len() == m.Len {
			if g2 := b.Sample(i); !g2.Same(m.St.Cells[m.Off+i]) && bad < 3 {
				add("cell", "Sample(%d) = %v, model %v", i, g2, m.St.Cells[m.Off+i])
				bad++
			}
		}
	}
	return ps
}

// CheckAll compares every live view and every storage (through its pinned
// root) against the model.
func (w *World) CheckAll() []Problem {
	var ps []Problem
	for _, v := range w.Views {
		ps = append(ps, w.CheckView(v)...)
		if len(ps) > 8 {
			return ps
		}
	}
	for _, st := range w.Storages {
		bad := 0
		for i, want := range st.Cells {
			if got := st.Root.Get(i); !got.Same(want) {
				if bad < 3 {
					ps = append(ps, Problem{"storage-cell", fmt.Sprintf("storage %d position %d = %v, model %v", st.ID, i, got, want)})
				}
				bad++
			}
		}
	}
	return ps
}

// ---- model steps (the Go-slice meaning of each operation) ----

// SliceValid reports whether Slice(s,e) must succeed; decided without any
// multiplication that could overflow.
func (m MV) SliceValid(s, e int) bool {
	if m.C <= 0 {
		return false
	}
	frames := m.Cap / m.C
	return s >= 0 && s <= e && e <= frames
}

func (m MV) Slice(s, e int) MV {
	return MV{St: m.St, Off: m.Off + m.C*s, Len: m.C * (e - s), Cap: m.Cap - m.C*s, C: m.C}
}

// Slice performs the real and the model slicing of a valid range and
// registers the new view.
func (w *World) Slice(v *View, s, e int, name string) *View {
	nb := v.B.Slice(s, e)
	nv := &View{M: v.M.Slice(s, e), B: nb, Name: name}
	w.Views = append(w.Views, nv)
	return nv
}

// SetSample writes through a view (i < Len).
func (w *World) SetSample(v *View, i int, x dyn.Val) {
	v.B.SetSample(i, x)
	v.M.St.Cells[v.M.Off+i] = x
}

// AppendSample appends one sample (no-op when full).
func (w *World) AppendSample(v *View, x dyn.Val) {
	v.B.AppendSample(x)
	if v.M.Len < v.M.Cap {
		v.M.St.Cells[v.M.Off+v.M.Len] = x
		v.M.Len++
	}
}

// Covering counts the live views whose length window covers the storage
// position.
func (w *World) Covering(st *Storage, pos int) int {
	n := 0
	for _, v := range w.Views {
		if v.M.St == st && pos >= v.M.Off && pos < v.M.Off+v.M.Len {
			n++
		}
	}
	return n
}

// AppendPre reports whether Append(dst, src) is inside the domain of the
// properties: frame-aligned operands and a source window that does not
// overlap the destination's spare capacity (unless it is the destination).
func AppendPre(dst, src *View) bool { return appendPre(dst, src, false) }

// AppendPreHistories is the domain used by the history property (C12): in
// addition, operands with a partly filled last frame are admitted as long as
// the append fits the capacity (the in-place step is plain Go-slice
// behaviour; only a *growing* append of unaligned operands is outside the
// stated domain, see DESIGN.md section 7 (ii)).
func AppendPreHistories(dst, src *View) bool { return appendPre(dst, src, true) }

func appendPre(dst, src *View, unalignedInPlace bool) bool {
	d, s := dst.M, src.M
	if d.C != s.C || d.C <= 0 {
		return false
	}
	if d.Cap%d.C != 0 {
		return false
	}
	if d.Len%d.C != 0 || s.Len%s.C != 0 {
		if !unalignedInPlace || d.Cap < d.Len+s.Len {
			return false
		}
	}
	if dst == src {
		return true
	}
	if d.St == s.St {
		// spare capacity of dst: [Off+Len, Off+Cap); src window: [Off, Off+Len)
		lo, hi := d.Off+d.Len, d.Off+d.Cap
		slo, shi := s.Off, s.Off+s.Len
		if slo < hi && lo < shi {
			// overlapping the spare capacity is outside C03's domain. For the
			// history property the part of it that is plain Go-slice behaviour is
			// admitted: a source that starts at or after the position the append
			// writes to (a forward element copy then never reads a sample it
			// has already written, exactly like append's copy of a snapshot)
			return unalignedInPlace && slo >= lo
		}
	}
	return true
}

// Append performs the real Append and the model step; returns problems found
// in the growth constraints (alignment, freshness).
func (w *World) Append(dst, src *View) []Problem {
	var ps []Problem
	add := func(kind, f string, a ...any) { ps = append(ps, Problem{kind, dst.Name + ": " + fmt.Sprintf(f, a...)}) }
	n := src.M.Len
	srcCells := append([]dyn.Val(nil), src.M.St.Cells[src.M.Off:src.M.Off+n]...)
	d := &dst.M
	grow := d.Cap < d.Len+n
	dst.B.Append(src.B)
	if !grow {
		w.InPlace++
		for i := 0; i < n; i++ {
			d.St.Cells[d.Off+d.Len+i] = srcCells[i]
		}
		d.Len += n
		d.Cap -= d.Cap % d.C
		return nil
	}
	w.Growths++
	newCap := dst.B.RawCap()
	newLen := d.Len + n
	if dst.B.RawLen() != newLen {
		add("shape", "after growing append raw len=%d want %d", dst.B.RawLen(), newLen)
		return ps
	}
	if newCap%d.C != 0 {
		add("align", "capacity %d after growth is not a multiple of %d channels", newCap, d.C)
	}
	if newCap < newLen {
		add("shape", "capacity %d < length %d after growth", newCap, newLen)
		return ps
	}
	nb := dst.B.RawBase()
	for _, st := range w.Storages {
		lo, hi := st.Base, st.Base+uintptr(len(st.Cells)*st.Size)
		nlo, nhi := nb, nb+uintptr(newCap*w.T.SizeOf)
		if len(st.Cells) > 0 && newCap > 0 && nlo < hi && lo < nhi {
			add("storage", "storage after growth [%#x,%#x) overlaps existing storage %d [%#x,%#x)", nlo, nhi, st.ID, lo, hi)
		}
	}
	st := &Storage{ID: w.nextID, Base: nb, Size: w.T.SizeOf, Root: dst.B.RawAll()}
	w.nextID++
	st.Cells = make([]dyn.Val, newCap)
	copy(st.Cells, d.St.Cells[d.Off:d.Off+d.Len])
	copy(st.Cells[d.Len:], srcCells)
	for i := newLen; i < newCap; i++ {
		st.Cells[i] = dst.B.RawAt(i) // adopted, then required to stay stable
	}
	w.Storages = append(w.Storages, st)
	d.St, d.Off, d.Len, d.Cap = st, 0, newLen, newCap
	return ps
}

// Drop retires a view (its storage stays pinned and checked through others).
func (w *World) Drop(i int) {
	w.Views = append(w.Views[:i], w.Views[i+1:]...)
}

// Sig is a structural signature of the model state (shapes and sharing, not
// values) used to count distinct states seen.
func (w *World) Sig() uint64 {
	h := uint64(1469598103934665603)
	mix := func(x int) {
		h ^= uint64(int64(x))
		h *= 1099511628211
	}
	for _, v := range w.Views {
		mix(v.M.St.ID)
		mix(v.M.Off)
		mix(v.M.Len)
		mix(v.M.Cap)
		mix(v.M.C)
	}
	return h
}

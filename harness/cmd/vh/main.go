// Command vh runs one batch of one property monitor against the real
// pipelined.dev/signal code (compiled from /repo through the replace
// directive) and writes what it observed to a result file.
package main

import (
	"encoding/json"
	"flag"
	"fmt"
	"os"
	"runtime/debug"
	"strings"

	"verifharness/core"
	"verifharness/props"
)

func main() {
	prop := flag.String("prop", "", "property id")
	tier := flag.String("tier", "quick", "quick|thorough")
	seed := flag.Uint64("seed", 1, "VERIF_SEED")
	batch := flag.Int("batch", 0, "batch index")
	nbatch := flag.Int("nbatch", 1, "number of batches")
	mode := flag.String("mode", "", "batch mode")
	out := flag.String("out", "", "result file")
	only := flag.String("only", "", "replay: run only this case id")
	plan := flag.Bool("plan", false, "print the batch plan")
	merge := flag.Bool("merge", false, "print the size of the union of signature files given as arguments")
	meta := flag.Bool("meta", false, "print property metadata")
	args := flag.String("args", "", "k=v,k=v extra arguments")
	beat := flag.String("beat", "", "heartbeat file shared with the driver")
	flag.Parse()
	if *beat != "" {
		if err := core.AttachBeat(*beat); err != nil {
			fmt.Fprintln(os.Stderr, "heartbeat:", err)
		}
	}

	if *merge {
		n, err := core.MergeSigs(flag.Args())
		if err != nil {
			fmt.Fprintln(os.Stderr, err)
			os.Exit(2)
		}
		fmt.Println(n)
		return
	}
	if *meta {
		m := map[string]any{}
		for _, id := range props.IDs() {
			d := props.Get(id)
			m[id] = map[string]any{"level": d.Level, "rule": d.Rule, "assumptions": d.Assume, "exhaustive_part": d.Exhaustiv}
		}
		b, _ := json.Marshal(m)
		fmt.Println(string(b))
		return
	}
	d := props.Get(*prop)
	if d == nil {
		fmt.Fprintf(os.Stderr, "unknown property %q (have %v)\n", *prop, props.IDs())
		os.Exit(2)
	}
	if *plan {
		b, _ := json.Marshal(d.Plan(*tier))
		fmt.Println(string(b))
		return
	}
	c := core.NewCtx(*prop, *tier, *seed, *batch, *nbatch)
	c.Mode = *mode
	c.OutPath = *out
	c.Only = *only
	if *args != "" {
		for _, kv := range strings.Split(*args, ",") {
			if k, v, ok := strings.Cut(kv, "="); ok {
				c.Args[k] = v
			}
		}
	}
	func() {
		defer func() {
			if r := recover(); r != nil {
				// A panic that escaped a monitor is reported as a harness
				// crash; the driver turns an unfinished result into a
				// violation only if the stack goes through the library.
				fmt.Fprintf(os.Stderr, "HARNESS-PANIC: %v\n%s\n", r, debug.Stack())
				os.Exit(3)
			}
		}()
		d.Run(c)
	}()
	if err := c.Finish(); err != nil {
		fmt.Fprintln(os.Stderr, "write result:", err)
		os.Exit(2)
	}
}

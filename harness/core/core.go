// Package core holds what every monitor shares: the deterministic PRNG, the
// per-run context that counts what was observed, the violation records and
// the result file a child process hands back to the driver.
package core

import (
	"encoding/binary"
	"encoding/json"
	"fmt"
	"hash/fnv"
	"os"
	"sort"
	"strings"
	"sync/atomic"
	"syscall"
	"time"
	"unsafe"
)

// ---------------------------------------------------------------- PRNG

// Rand is xoshiro256** seeded through splitmix64. Deterministic across runs
// and platforms; never seeded from the clock.
type Rand struct{ s [4]uint64 }

func splitmix(x *uint64) uint64 {
	*x += 0x9e3779b97f4a7c15
	z := *x
	z = (z ^ (z >> 30)) * 0xbf58476d1ce4e5b9
	z = (z ^ (z >> 27)) * 0x94d049bb133111eb
	return z ^ (z >> 31)
}

// NewRand derives a generator from a seed and any number of stream labels.
func NewRand(seed uint64, stream ...uint64) *Rand {
	x := seed
	for _, s := range stream {
		x = splitmix(&x) ^ (s * 0xd6e8feb86659fd93)
	}
	r := &Rand{}
	for i := range r.s {
		r.s[i] = splitmix(&x)
	}
	return r
}

func rotl(x uint64, k uint) uint64 { return (x << k) | (x >> (64 - k)) }

func (r *Rand) Uint64() uint64 {
	s := &r.s
	res := rotl(s[1]*5, 7) * 9
	t := s[1] << 17
	s[2] ^= s[0]
	s[3] ^= s[1]
	s[1] ^= s[2]
	s[0] ^= s[3]
	s[2] ^= t
	s[3] = rotl(s[3], 45)
	return res
}

// Intn returns a value in [0,n). n must be > 0.
func (r *Rand) Intn(n int) int {
	if n <= 0 {
		return 0
	}
	return int(r.Uint64() % uint64(n))
}

// Range returns a value in [lo,hi].
func (r *Rand) Range(lo, hi int) int {
	if hi <= lo {
		return lo
	}
	return lo + r.Intn(hi-lo+1)
}

func (r *Rand) Bool() bool { return r.Uint64()&1 == 1 }

// Chance returns true with probability num/den.
func (r *Rand) Chance(num, den int) bool { return r.Intn(den) < num }

func (r *Rand) Float64() float64 { return float64(r.Uint64()>>11) / (1 << 53) }

// Pick returns one of the given ints.
func (r *Rand) Pick(xs ...int) int { return xs[r.Intn(len(xs))] }

// ---------------------------------------------------------------- hashing

// Hash is an incremental FNV-1a/64 used for case signatures.
type Hash struct{ h uint64 }

func NewHash() *Hash { return &Hash{h: 14695981039346656037} }

func (h *Hash) U64(v uint64) *Hash {
	for i := 0; i < 8; i++ {
		h.h ^= v & 0xff
		h.h *= 1099511628211
		v >>= 8
	}
	return h
}
func (h *Hash) Int(v int) *Hash { return h.U64(uint64(int64(v))) }
func (h *Hash) Str(s string) *Hash {
	for i := 0; i < len(s); i++ {
		h.h ^= uint64(s[i])
		h.h *= 1099511628211
	}
	h.h ^= 0xff
	h.h *= 1099511628211
	return h
}
func (h *Hash) Sum() uint64 { return h.h }

func HashStr(s string) uint64 {
	f := fnv.New64a()
	f.Write([]byte(s))
	return f.Sum64()
}

// ---------------------------------------------------------------- context

// Violation is one refuting observation.
type Violation struct {
	Key    string `json:"key"`    // canonical instantiation|kind|input, matched against known_findings.txt
	What   string `json:"what"`   // one line for humans
	Detail any    `json:"detail"` // the exact case: shapes, values, operation sequence, history
	CaseID string `json:"case_id"`
}

// Result is what a child writes for the driver.
type Result struct {
	Prop            string            `json:"prop"`
	Tier            string            `json:"tier"`
	Seed            uint64            `json:"seed"`
	Batch           string            `json:"batch"`
	Evaluations     int64             `json:"evaluations"`
	DistinctCounted int64             `json:"distinct_counted"` // distinct by construction (disjoint enumeration)
	DistinctHashes  int               `json:"distinct_hashes"`  // size of the signature set (file <out>.sigs)
	HashCapReached  bool              `json:"hash_cap_reached"`
	Obs             map[string]int64  `json:"obs"`
	ObsMax          map[string]int64  `json:"obs_max"`
	Floors          map[string]int64  `json:"floors"`
	Samples         []any             `json:"samples"`
	Violations      []Violation       `json:"violations"`
	ViolationCount  int64             `json:"violation_count"`
	ViolationKeys   map[string]int64  `json:"violation_keys"`
	Inconclusive    []string          `json:"inconclusive"`
	Exhaustive      map[string]bool   `json:"exhaustive"`       // named parts of the case space that were enumerated completely
	FullyExhaustive bool              `json:"fully_exhaustive"` // the whole (finite) case space of the check was enumerated
	Notes           map[string]string `json:"notes"`
	// Digests are results that must not depend on the process they were
	// computed in (its history of earlier calls): the driver compares the
	// values reported for the same key by different child processes.
	Digests map[string]string `json:"digests"`
	WallS   float64           `json:"wall_s"`
	Done    bool              `json:"done"`
}

const (
	maxRecordedViolations = 40
	maxSamples            = 6
	hashCap               = 3_000_000
)

// Ctx is the per-child run context.
type Ctx struct {
	Prop, Tier string
	Seed       uint64
	Batch      int
	NBatch     int
	Mode       string // extra selector a plan can pass (e.g. "race", "plain", "scan32")
	Args       map[string]string
	Only       string // replay: only this case id
	OutPath    string
	R          Result
	sigs       map[uint64]struct{}
	start      time.Time
	sampleGate map[string]int
	classSeen  map[string]int
}

func NewCtx(prop, tier string, seed uint64, batch, nbatch int) *Ctx {
	c := &Ctx{Prop: prop, Tier: tier, Seed: seed, Batch: batch, NBatch: nbatch, Args: map[string]string{}}
	c.R = Result{Prop: prop, Tier: tier, Seed: seed,
		Obs: map[string]int64{}, ObsMax: map[string]int64{}, Floors: map[string]int64{},
		ViolationKeys: map[string]int64{}, Exhaustive: map[string]bool{}, Notes: map[string]string{}, Digests: map[string]string{}}
	c.sigs = map[uint64]struct{}{}
	c.start = time.Now()
	c.sampleGate = map[string]int{}
	return c
}

func (c *Ctx) Quick() bool { return c.Tier != "thorough" }

// Pick returns q in the quick tier and t in the thorough tier.
func (c *Ctx) Pick(q, t int) int {
	if c.Quick() {
		return q
	}
	return t
}

// Rand returns the generator for this batch and the given stream labels.
func (c *Ctx) Rand(stream ...uint64) *Rand {
	s := append([]uint64{HashStr(c.Prop), uint64(c.Batch) + 1}, stream...)
	return NewRand(c.Seed, s...)
}

// Mine reports whether item i of a seed-independent list belongs to this
// batch (lists are partitioned round-robin so that no case is run twice).
func (c *Ctx) Mine(i int) bool {
	if c.NBatch <= 1 {
		return true
	}
	return i%c.NBatch == c.Batch
}

func (c *Ctx) Eval(n int64) { c.R.Evaluations += n }

// Distinct records the signature of one non-trivial case.
func (c *Ctx) Distinct(sig uint64) {
	if len(c.sigs) >= hashCap {
		c.R.HashCapReached = true
		return
	}
	c.sigs[sig] = struct{}{}
}

// DistinctN adds n cases that are distinct by construction.
func (c *Ctx) DistinctN(n int64) { c.R.DistinctCounted += n }

func (c *Ctx) Obs(name string, n int64) { c.R.Obs[name] += n }
func (c *Ctx) ObsMax(name string, v int64) {
	if cur, ok := c.R.ObsMax[name]; !ok || v > cur {
		c.R.ObsMax[name] = v
	}
}

// Floor declares that the merged observation counter must reach n, else the
// run is inconclusive.
func (c *Ctx) Floor(name string, n int64) {
	if n > c.R.Floors[name] {
		c.R.Floors[name] = n
	}
}

func (c *Ctx) Sample(class string, s any) {
	if c.sampleGate[class] >= 2 || len(c.R.Samples) >= maxSamples {
		return
	}
	c.sampleGate[class]++
	c.R.Samples = append(c.R.Samples, map[string]any{"class": class, "case": s})
}

// Digest records a process-independent result for cross-process comparison.
func (c *Ctx) Digest(key, value string) { c.R.Digests[key] = value }

func (c *Ctx) Inconclusive(why string) { c.R.Inconclusive = append(c.R.Inconclusive, why) }
func (c *Ctx) Note(k, v string)        { c.R.Notes[k] = v }

// Violate records a refuting observation.
func (c *Ctx) Violate(key, caseID, what string, detail any) {
	c.R.ViolationCount++
	c.R.ViolationKeys[key]++
	// the full record (message, detail) is kept for the first few violations of
	// a key; once the list is long, still for the first two of every CLASS of
	// keys (the key without its last, input-specific component), so that a
	// flood of one class (e.g. a known finding with hundreds of inputs) cannot
	// crowd out the witness of another
	class := key
	if i := strings.LastIndex(key, "|"); i > 0 {
		class = key[:i]
	}
	if c.classSeen == nil {
		c.classSeen = map[string]int{}
	}
	c.classSeen[class]++
	full := len(c.R.Violations) >= maxRecordedViolations
	if c.R.ViolationKeys[key] > 3 || (full && (c.classSeen[class] > 2 || len(c.R.Violations) >= 4*maxRecordedViolations)) {
		return
	}
	c.R.Violations = append(c.R.Violations, Violation{Key: key, What: what, Detail: detail, CaseID: caseID})
}

func (c *Ctx) Violated() bool { return c.R.ViolationCount > 0 }

// TooMany tells generators to stop early once enough witnesses exist.
func (c *Ctx) TooMany() bool { return c.R.ViolationCount > 2000 }

// Want reports whether the case id should run (replay filter).
func (c *Ctx) Want(caseID string) bool {
	return c.Only == "" || c.Only == caseID || strings.HasPrefix(caseID, c.Only+"/")
}

// Finish writes the result file (and the signature file next to it).
func (c *Ctx) Finish() error {
	c.R.WallS = time.Since(c.start).Seconds()
	c.R.DistinctHashes = len(c.sigs)
	c.R.Done = true
	c.R.Batch = fmt.Sprintf("%d/%d%s", c.Batch, c.NBatch, func() string {
		if c.Mode != "" {
			return ":" + c.Mode
		}
		return ""
	}())
	if c.OutPath == "" {
		b, _ := json.MarshalIndent(c.R, "", " ")
		fmt.Println(string(b))
		return nil
	}
	keys := make([]uint64, 0, len(c.sigs))
	for k := range c.sigs {
		keys = append(keys, k)
	}
	sort.Slice(keys, func(i, j int) bool { return keys[i] < keys[j] })
	buf := make([]byte, 8*len(keys))
	for i, k := range keys {
		binary.LittleEndian.PutUint64(buf[8*i:], k)
	}
	if err := os.WriteFile(c.OutPath+".sigs", buf, 0o644); err != nil {
		return err
	}
	b, err := json.Marshal(c.R)
	if err != nil {
		return err
	}
	tmp := c.OutPath + ".tmp"
	if err := os.WriteFile(tmp, b, 0o644); err != nil {
		return err
	}
	return os.Rename(tmp, c.OutPath)
}

// MergeSigs returns the size of the union of the given signature files.
func MergeSigs(paths []string) (int, error) {
	var all []uint64
	for _, p := range paths {
		b, err := os.ReadFile(p)
		if err != nil {
			if os.IsNotExist(err) {
				continue
			}
			return 0, err
		}
		for i := 0; i+8 <= len(b); i += 8 {
			all = append(all, binary.LittleEndian.Uint64(b[i:]))
		}
	}
	sort.Slice(all, func(i, j int) bool { return all[i] < all[j] })
	n := 0
	for i := range all {
		if i == 0 || all[i] != all[i-1] {
			n++
		}
	}
	return n, nil
}

// beat is the heartbeat the driver watches from outside the process: beat[0]
// counts entries into and exits from guarded library calls, beat[1] is the
// number of guarded calls in progress. The driver (not this process: a timer
// goroutine here would switch off the runtime's deadlock detector) reads it
// through a shared mapping together with the CPU time of the process; a call
// in progress with an unchanged counter over a long stretch of CPU time is a
// library call that does not return.
var beat = new([2]uint64)

// AttachBeat maps the 16-byte file at path and moves the heartbeat into it.
func AttachBeat(path string) error {
	f, err := os.OpenFile(path, os.O_RDWR|os.O_CREATE, 0o644)
	if err != nil {
		return err
	}
	defer f.Close()
	if err := f.Truncate(16); err != nil {
		return err
	}
	m, err := syscall.Mmap(int(f.Fd()), 0, 16, syscall.PROT_READ|syscall.PROT_WRITE, syscall.MAP_SHARED)
	if err != nil {
		return err
	}
	beat = (*[2]uint64)(unsafe.Pointer(&m[0]))
	return nil
}

// Enter and Leave bracket one short operation on the library for the heartbeat,
// where a monitor does its own recovering.
func Enter() {
	atomic.AddUint64(&beat[0], 1)
	atomic.AddUint64(&beat[1], 1)
}

func Leave() {
	atomic.AddUint64(&beat[1], ^uint64(0))
	atomic.AddUint64(&beat[0], 1)
}

// Guard runs f and converts a panic into (true, message).
func Guard(f func()) (panicked bool, msg string) {
	atomic.AddUint64(&beat[0], 1)
	atomic.AddUint64(&beat[1], 1)
	defer func() {
		atomic.AddUint64(&beat[1], ^uint64(0))
		atomic.AddUint64(&beat[0], 1)
		if r := recover(); r != nil {
			panicked = true
			msg = fmt.Sprint(r)
		}
	}()
	f()
	return
}

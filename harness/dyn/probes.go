package dyn

import (
	"math"
	"runtime"
	"time"
	"unsafe"

	"pipelined.dev/signal"
)

// Probe is one steady-state operation, executed on real typed buffers with
// everything it needs allocated beforehand, so that any allocation observed
// while it runs is the library's.
type Probe struct {
	Name string
	Run  func()
	// MaxPerRun is the number of allocations one execution may perform (0 for
	// everything except Slice, whose result is made to escape).
	MaxPerRun int
}

// sinks keep results alive / make them escape.
var (
	SinkInt   int
	SinkFloat float64
	SinkAny   any
)

func typeProbes[T signal.SignalTypes](name string) func(ch, length int) []Probe {
	return func(ch, length int) []Probe {
		al := signal.Allocator{Channels: ch, Length: length, Capacity: length + 4}
		parent := signal.Alloc[T](signal.Allocator{Channels: ch, Length: length + 8, Capacity: length + 8})
		b := signal.Alloc[T](al)
		win := parent.Slice(2, 2+length) // window with spare capacity
		full := signal.Alloc[T](signal.Allocator{Channels: ch, Length: length, Capacity: length})
		src := signal.Alloc[T](signal.Allocator{Channels: ch, Length: length, Capacity: length})
		for i := 0; i < src.Len(); i++ {
			src.SetSample(i, T(i%7))
		}
		// appends where source and destination share one backing array: the
		// destination header is reset by a struct copy (no allocation)
		big := signal.Alloc[T](signal.Allocator{Channels: ch, Length: 3*length + 8, Capacity: 3*length + 8})
		for i := 0; i < big.Len(); i++ {
			big.SetSample(i, T(i%11))
		}
		earlier := big.Slice(0, length)          // source window before the destination
		winDst0 := big.Slice(length+2, length+3) // 1 frame long, spare capacity up to the end of big
		winDst := big.Slice(length+2, length+3)
		selfDst0 := big.Slice(1, 1+length) // length frames, capacity for more than twice that
		selfDst := big.Slice(1, 1+length)
		var aged *signal.PoolAllocator[T]
		exact := signal.PoolAlloc[T](signal.Allocator{Channels: ch, Length: 0, Capacity: length}) // the source fills it exactly
		pool := signal.PoolAlloc[T](signal.Allocator{Channels: ch, Length: 0, Capacity: length + 4})
		poolL := signal.PoolAlloc[T](al)
		// copies of an allocator value made before its first use: they share
		// one pool with the original and with each other
		poolV := signal.PoolAlloc[T](al)
		copies := []signal.PoolAllocator[T]{poolV, poolV, poolV}
		// a buffer whose last frame is only partly filled
		rag := signal.Alloc[T](al)
		if ch > 1 {
			rag.AppendSample(T(3))
		}
		// a non-empty destination with room for exactly one more frame
		tight0 := signal.Alloc[T](signal.Allocator{Channels: ch, Length: length, Capacity: length + 1})
		tight := signal.Alloc[T](signal.Allocator{Channels: ch, Length: length, Capacity: length + 1})
		oneFrame := signal.Alloc[T](signal.Allocator{Channels: ch, Length: 1, Capacity: 1})
		// two sources that each end in a partly filled frame and together fill a
		// destination of 4 frames exactly
		odd0 := signal.Alloc[T](signal.Allocator{Channels: ch, Length: 0, Capacity: 4})
		odd := signal.Alloc[T](signal.Allocator{Channels: ch, Length: 0, Capacity: 4})
		oddA := signal.Alloc[T](signal.Allocator{Channels: ch, Length: 1, Capacity: 2})
		oddB := signal.Alloc[T](signal.Allocator{Channels: ch, Length: 2, Capacity: 3})
		if ch > 1 {
			oddA.AppendSample(T(1)) // ch+1 samples
			for i := 0; i < ch-1; i++ {
				oddB.AppendSample(T(2)) // 3*ch-1 samples
			}
		} else {
			oddB.AppendSample(T(2)) // mono: 1 + 3 samples
		}
		ps := []Probe{
			{Name: "two-Appends-of-sources-ending-in-a-partial-frame-that-fill-the-capacity-exactly[" + name + "]", Run: func() {
				*odd = *odd0
				odd.Append(oddA)
				odd.Append(oddB)
			}},
			{Name: "Append-of-one-frame-into-the-last-free-frame[" + name + "]", Run: func() {
				*tight = *tight0
				tight.Append(oneFrame)
			}},
			{Name: "pool-cycle-putting-a-shorter-slice-from-frame-0[" + name + "]", MaxPerRun: 1, Run: func() {
				g := poolL.Get()
				poolL.Put(g.Slice(0, length/2))
			}},
			{Name: "pool-cycle-filling-the-buffer-and-putting-a-shorter-slice-from-frame-0[" + name + "]", MaxPerRun: 1, Run: func() {
				g := poolL.Get()
				for i := 0; i < g.Len(); i++ {
					g.SetSample(i, T(1+i%3))
				}
				for i := g.Len(); i < g.Cap(); i++ {
					g.AppendSample(T(1 + i%3))
				}
				poolL.Put(g.Slice(0, length/2))
			}},
			{Name: "pool-cycle-through-copies-of-an-allocator-value[" + name + "]", Run: func() {
				g1 := copies[0].Get()
				g2 := copies[1].Get()
				copies[2].Put(g1)
				copies[0].Put(g2)
			}},
			{Name: "accessors+Channel-view+Slice-with-partial-last-frame[" + name + "]", MaxPerRun: 1, Run: func() {
				var acc T
				for c := 0; c < ch; c++ {
					cv := rag.Channel(c)
					SinkInt = cv.Channels() + cv.Length() + cv.Capacity() + rag.Length() + rag.Len()
					for i := 0; i < length; i++ {
						acc += cv.Sample(i)
						cv.SetSample(i, acc)
					}
				}
				SinkFloat = float64(acc)
				SinkAny = rag.Slice(0, length)
			}},
			{Name: "Sample/SetSample[" + name + "]", Run: func() {
				var acc T
				for i := 0; i < b.Len(); i++ {
					acc += b.Sample(i)
					b.SetSample(i, acc)
				}
				for i := 0; i < win.Len(); i++ {
					win.SetSample(i, win.Sample(i)+1)
				}
				SinkFloat = float64(acc)
			}},
			{Name: "accessors[" + name + "]", Run: func() {
				SinkInt = b.Len() + b.Cap() + b.Length() + b.Capacity() + b.Channels() + int(b.BitDepth()) + b.BufferIndex(ch-1, 3) + win.Length()
			}},
			{Name: "AppendSample-on-full[" + name + "]", Run: func() {
				for i := 0; i < 8; i++ {
					full.AppendSample(T(i))
				}
			}},
			{Name: "pool-cycle+AppendSample[" + name + "]", Run: func() {
				g := pool.Get()
				for i := 0; i < ch*(length+4)+2; i++ {
					g.AppendSample(T(i % 5))
				}
				pool.Put(g)
			}},
			{Name: "pool-cycle-on-a-long-lived-pool-emptied-by-collections-many-times[" + name + "]", Run: func() {
				if aged == nil {
					// set up on first use: 6 rounds of 8 gets, 8 puts and two
					// collections (which empty a sync.Pool), then the pool is used again
					p := signal.PoolAlloc[T](signal.Allocator{Channels: ch, Length: length, Capacity: length + 4})
					aged = &p
					for round := 0; round < 6; round++ {
						var hs [8]*signal.Buffer[T]
						for i := range hs {
							hs[i] = aged.Get()
						}
						for i := range hs {
							aged.Put(hs[i])
						}
						runtime.GC()
						runtime.GC()
					}
				}
				g := aged.Get()
				g.AppendSample(1)
				aged.Put(g)
			}},
			{Name: "pool-cycle+Append-within-capacity[" + name + "]", Run: func() {
				g := pool.Get()
				g.Append(src)
				pool.Put(g)
			}},
			{Name: "Append-within-capacity-from-earlier-window-of-same-storage[" + name + "]", Run: func() {
				*winDst = *winDst0
				winDst.Append(earlier)
			}},
			{Name: "self-Append-within-capacity[" + name + "]", Run: func() {
				*selfDst = *selfDst0
				selfDst.Append(selfDst)
			}},
			{Name: "pool-cycle+Append-filling-the-capacity-exactly[" + name + "]", Run: func() {
				g := exact.Get()
				g.Append(src)
				exact.Put(g)
			}},
			{Name: "pool-cycle-with-length[" + name + "]", Run: func() {
				g1 := poolL.Get()
				g2 := poolL.Get()
				if g1.Len() > 0 {
					g1.SetSample(0, 1)
				}
				poolL.Put(g1)
				poolL.Put(g2)
			}},
			{Name: "Channel-view[" + name + "]", Run: func() {
				var acc T
				for c := 0; c < ch; c++ {
					cv := b.Channel(c)
					SinkInt = cv.Channels() + cv.Length() + cv.Capacity()
					for i := 0; i < cv.Length(); i++ {
						acc += cv.Sample(i)
						cv.SetSample(i, acc)
						SinkInt += cv.BufferIndex(c, i)
					}
				}
				SinkFloat = float64(acc)
			}},
			{Name: "Slice[" + name + "]", MaxPerRun: 1, Run: func() {
				SinkAny = parent.Slice(1, 1+length)
			}},
			{Name: "Slice-nested[" + name + "]", MaxPerRun: 2, Run: func() {
				SinkAny = parent.Slice(1, 1+length).Slice(0, length)
			}},
		}
		return ps
	}
}

func pairProbes[A, B signal.SignalTypes](an, bn string) func(ch, length int) []Probe {
	return func(ch, length int) []Probe {
		bufA := signal.Alloc[A](signal.Allocator{Channels: ch, Length: length, Capacity: length})
		parentB := signal.Alloc[B](signal.Allocator{Channels: ch, Length: length + 6, Capacity: length + 6})
		bufB := parentB.Slice(3, 3+length)
		flatA := make([]A, ch*length+3)
		flatB := make([]B, ch*length+3)
		strA := make([][]A, ch)
		strB := make([][]B, ch)
		for c := 0; c < ch; c++ {
			strA[c] = make([]A, length+c%2)
			strB[c] = make([]B, length+1)
		}
		if ch > 1 {
			strA[1] = nil // nil channel: zero fill path
		}
		tag := "[" + an + "," + bn + "]"
		return []Probe{
			{Name: "Write" + tag, Run: func() { SinkInt = signal.Write(flatA, bufB) }},
			{Name: "Read" + tag, Run: func() { SinkInt = signal.Read(bufA, flatB) }},
			{Name: "WriteStriped" + tag, Run: func() { SinkInt = signal.WriteStriped(strA, bufB) }},
			{Name: "ReadStriped" + tag, Run: func() { SinkInt = signal.ReadStriped(bufA, strB) }},
		}
	}
}

func convProbe[S, D signal.SignalTypes](f func(*signal.Buffer[S], *signal.Buffer[D]) int) func(ch, length int) func() {
	return func(ch, length int) func() {
		src := signal.Alloc[S](signal.Allocator{Channels: ch, Length: length, Capacity: length})
		for i := 0; i < src.Len(); i++ {
			src.SetSample(i, S(i%3))
		}
		parent := signal.Alloc[D](signal.Allocator{Channels: ch, Length: length + 5, Capacity: length + 5})
		dst := parent.Slice(2, 2+length)
		// operands of different lengths, both ways
		srcLong := signal.Alloc[S](signal.Allocator{Channels: ch, Length: length + 3, Capacity: length + 3})
		ext := extremeValues[S]()
		for i := 0; i < srcLong.Len(); i++ {
			// small values and the extremes of the element type in turn
			if i%2 == 0 {
				srcLong.SetSample(i, ext[(i/2)%len(ext)])
			} else {
				srcLong.SetSample(i, S(i%5))
			}
		}
		dstLong := parent.Slice(1, 3+length)
		// the last frames of the parent: no spare capacity, less capacity than the long source has frames
		dstTail := parent.Slice(5, 5+length)
		return func() { SinkInt = f(src, dst) + f(srcLong, dst) + f(src, dstLong) + f(srcLong, dstTail) }
	}
}

// extremeValues returns the lowest, highest and middle codes of an integer
// element type and their neighbours; for a floating-point type values at,
// inside, just outside and far outside full scale, tiny ones and an infinity.
func extremeValues[S signal.SignalTypes]() []S {
	var zero S
	one := zero + 1
	if one/2 != zero {
		var out []S
		for _, f := range []float64{1, -1, 0.5, -0.5, 0.999999, -0.999999, 1.0000001, -1.0000001, 3, -3, 1e30, -1e30, 1e-30, -1e-30, math.Inf(1), math.Inf(-1)} {
			out = append(out, S(f))
		}
		return out
	}
	bits := int(unsafe.Sizeof(zero)) * 8
	top := one // 2^(bits-2)
	for i := 0; i < bits-2; i++ {
		top *= 2
	}
	if m := zero - 1; m > zero {
		// unsigned: m is the highest code, 2*top the zero level
		return []S{m, m - 1, 0, 1, 2 * top, 2*top - 1, 2*top + 1, top, top + top/2 + 1, m / 3}
	}
	hi := top + (top - 1)
	lo := -hi - 1
	return []S{hi, hi - 1, lo, lo + 1, 0, one, zero - 1, top, -top, hi / 3, lo / 3}
}

// idleCycle measures the heap allocations of ONE pool get/put cycle that
// starts `pause` after the previous put (minimum over reps repetitions). The
// caller runs with GOMAXPROCS(1) and the collector off, so the buffer parked
// by the previous put is still in the pool of the only P.
func idleCycle[T signal.SignalTypes](pause time.Duration, reps int) uint64 {
	pool := signal.PoolAlloc[T](signal.Allocator{Channels: 2, Length: 8, Capacity: 16})
	for i := 0; i < 3; i++ {
		g := pool.Get()
		g.AppendSample(1)
		pool.Put(g)
	}
	best := ^uint64(0)
	var m1, m2 runtime.MemStats
	for r := 0; r < reps && best != 0; r++ {
		time.Sleep(pause)
		runtime.ReadMemStats(&m1)
		g := pool.Get()
		g.AppendSample(1)
		pool.Put(g)
		runtime.ReadMemStats(&m2)
		if d := m2.Mallocs - m1.Mallocs; d < best {
			best = d
		}
	}
	return best
}

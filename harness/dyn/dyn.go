// Package dyn is a thin dynamic layer over the generic signal API so that
// monitors can be written once, non-generically, and still execute the real
// instantiations for every element type.
package dyn

import (
	"fmt"
	"math"
	"math/big"
	"reflect"
	"time"
	"unsafe"

	"pipelined.dev/signal"
)

type Kind uint8

const (
	KInt Kind = iota
	KUint
	KFloat
)

func (k Kind) String() string { return [...]string{"int", "uint", "float"}[k] }

// Val carries one sample value of any element type without loss.
type Val struct {
	K Kind
	I int64
	U uint64
	F float64
}

func IntVal(i int64) Val     { return Val{K: KInt, I: i} }
func UintVal(u uint64) Val   { return Val{K: KUint, U: u} }
func FloatVal(f float64) Val { return Val{K: KFloat, F: f} }

// Bits is the raw 64-bit carrier (sign-extended ints, float64 bits).
func (v Val) Bits() uint64 {
	switch v.K {
	case KInt:
		return uint64(v.I)
	case KUint:
		return v.U
	}
	return math.Float64bits(v.F)
}

func (v Val) String() string {
	switch v.K {
	case KInt:
		return fmt.Sprintf("%d", v.I)
	case KUint:
		return fmt.Sprintf("%du", v.U)
	}
	return fmt.Sprintf("%v(0x%016x)", v.F, math.Float64bits(v.F))
}

// MarshalJSON keeps witnesses readable.
func (v Val) MarshalJSON() ([]byte, error) { return []byte(`"` + v.String() + `"`), nil }

// Same is identity of representation (NaN equals NaN with the same bits,
// +0 differs from -0).
func (v Val) Same(o Val) bool { return v.K == o.K && v.Bits() == o.Bits() }

// IsZero reports the numeric zero (either sign for floats).
func (v Val) IsZero() bool {
	switch v.K {
	case KInt:
		return v.I == 0
	case KUint:
		return v.U == 0
	}
	return v.F == 0
}

// Big converts exactly. NaN/Inf give nil.
func (v Val) Big() *big.Rat {
	switch v.K {
	case KInt:
		return new(big.Rat).SetInt64(v.I)
	case KUint:
		return new(big.Rat).SetInt(new(big.Int).SetUint64(v.U))
	}
	if math.IsNaN(v.F) || math.IsInf(v.F, 0) {
		return nil
	}
	r := new(big.Rat)
	r.SetFloat64(v.F)
	return r
}

// NumEq is exact numeric equality across kinds.
func NumEq(a, b Val) bool {
	if a.K == b.K {
		switch a.K {
		case KInt:
			return a.I == b.I
		case KUint:
			return a.U == b.U
		}
		return a.F == b.F || (math.IsNaN(a.F) && math.IsNaN(b.F))
	}
	if a.K == KInt && b.K == KUint {
		return a.I >= 0 && uint64(a.I) == b.U
	}
	if a.K == KUint && b.K == KInt {
		return b.I >= 0 && uint64(b.I) == a.U
	}
	ra, rb := a.Big(), b.Big()
	if ra == nil || rb == nil {
		return false
	}
	return ra.Cmp(rb) == 0
}

// TypeInfo describes one element type.
type TypeInfo struct {
	ID    int // index into Types
	Name  string
	Kind  Kind
	Bits  int  // bit width of the type = expected bit depth
	Named bool // a named type derived from a built-in
	Base  int  // ID of the built-in type it derives from (itself for built-ins)
}

func (t *TypeInfo) Signed() bool { return t.Kind == KInt }

// MinInt / MaxInt / MaxUint of integer types.
func (t *TypeInfo) MinI() int64 { return -1 << (t.Bits - 1) }
func (t *TypeInfo) MaxI() int64 { return 1<<(t.Bits-1) - 1 }
func (t *TypeInfo) MaxU() uint64 {
	if t.Bits == 64 {
		return math.MaxUint64
	}
	return 1<<t.Bits - 1
}

// Fits reports whether the integer n (given as a Val of int or uint kind)
// is exactly representable in the type.
func (t *TypeInfo) FitsInt(n int64) bool {
	switch t.Kind {
	case KInt:
		return n >= t.MinI() && n <= t.MaxI()
	case KUint:
		return n >= 0 && uint64(n) <= t.MaxU()
	}
	lim := int64(1) << 53
	if t.Bits == 32 {
		lim = 1 << 24
	}
	return n >= -lim && n <= lim
}

// FromInt makes the Val of this type's kind holding integer n (must fit).
func (t *TypeInfo) FromInt(n int64) Val {
	switch t.Kind {
	case KInt:
		return IntVal(n)
	case KUint:
		return UintVal(uint64(n))
	}
	return FloatVal(float64(n))
}

// Buf is the dynamic face of *signal.Buffer[T].
type Buf interface {
	T() *TypeInfo
	Channels() int
	Len() int
	Cap() int
	Length() int
	Capacity() int
	BitDepth() int
	Sample(i int) Val
	SetSample(i int, v Val)
	AppendSample(v Val)
	Slice(s, e int) Buf
	Append(src Buf)
	BufferIndex(c, i int) int
	Channel(c int) Chan
	// RawLen/RawCap/RawBase/RawAt come from the verif hook: the real backing
	// slice header, independent of the exported accessors.
	RawLen() int
	RawCap() int
	RawBase() uintptr
	RawAt(i int) Val // i < RawCap: reads beyond the length through the header
	HeaderAddr() uintptr
	// RawAll is the whole backing array window [0,cap) as a caller-side
	// slice: reads and pins the storage without going through the library.
	RawAll() Sl
	Same(o Buf) bool // same *Buffer object
	Real() any
}

// Chan is the dynamic face of signal.C[T].
type Chan interface {
	Channels() int
	Length() int
	Capacity() int
	Sample(i int) Val
	SetSample(i int, v Val)
	BufferIndex(c, i int) int
}

// Sl is a caller-side slice []T.
type Sl interface {
	T() *TypeInfo
	Len() int
	Get(i int) Val
	Set(i int, v Val)
	IsNil() bool
	Real() any
}

// SS is a caller-side [][]T.
type SS interface {
	N() int
	At(c int) Sl
	Real() any
}

// Pool is the dynamic face of signal.PoolAllocator[T].
type Pool interface {
	Get() Buf
	Put(b Buf)
	Copy() Pool // a copy of the allocator value (shares the sync.Pool)
}

type gbuf[T signal.SignalTypes] struct {
	b  *signal.Buffer[T]
	ti *TypeInfo
}

func fromVal[T signal.SignalTypes](v Val) T {
	switch v.K {
	case KInt:
		return T(v.I)
	case KUint:
		return T(v.U)
	}
	return T(v.F)
}

func toVal[T signal.SignalTypes](k Kind, x T) Val {
	switch k {
	case KInt:
		return Val{K: KInt, I: int64(x)}
	case KUint:
		return Val{K: KUint, U: uint64(x)}
	}
	return Val{K: KFloat, F: float64(x)}
}

// Wrap makes a Buf from a real buffer.
func Wrap[T signal.SignalTypes](b *signal.Buffer[T], ti *TypeInfo) Buf {
	if b == nil {
		return nil
	}
	return &gbuf[T]{b: b, ti: ti}
}

// Unwrap returns the real buffer.
func Unwrap[T signal.SignalTypes](b Buf) *signal.Buffer[T] { return b.(*gbuf[T]).b }

func (g *gbuf[T]) T() *TypeInfo           { return g.ti }
func (g *gbuf[T]) Channels() int          { return g.b.Channels() }
func (g *gbuf[T]) Len() int               { return g.b.Len() }
func (g *gbuf[T]) Cap() int               { return g.b.Cap() }
func (g *gbuf[T]) Length() int            { return g.b.Length() }
func (g *gbuf[T]) Capacity() int          { return g.b.Capacity() }
func (g *gbuf[T]) BitDepth() int          { return int(g.b.BitDepth()) }
func (g *gbuf[T]) Sample(i int) Val       { return toVal(g.ti.Kind, g.b.Sample(i)) }
func (g *gbuf[T]) SetSample(i int, v Val) { g.b.SetSample(i, fromVal[T](v)) }
func (g *gbuf[T]) AppendSample(v Val)     { g.b.AppendSample(fromVal[T](v)) }
func (g *gbuf[T]) Slice(s, e int) Buf     { return &gbuf[T]{b: g.b.Slice(s, e), ti: g.ti} }
func (g *gbuf[T]) Append(src Buf)         { g.b.Append(src.(*gbuf[T]).b) }
func (g *gbuf[T]) BufferIndex(c, i int) int {
	return g.b.BufferIndex(c, i)
}
func (g *gbuf[T]) Channel(c int) Chan { return &gchan[T]{c: g.b.Channel(c), ti: g.ti} }
func (g *gbuf[T]) RawLen() int        { return len(g.b.VerifData()) }
func (g *gbuf[T]) RawCap() int        { return cap(g.b.VerifData()) }
func (g *gbuf[T]) RawBase() uintptr {
	d := g.b.VerifData()
	return uintptr(unsafe.Pointer(unsafe.SliceData(d)))
}
func (g *gbuf[T]) RawAt(i int) Val {
	d := g.b.VerifData()
	return toVal(g.ti.Kind, d[:cap(d)][i])
}
func (g *gbuf[T]) RawAll() Sl {
	d := g.b.VerifData()
	return &gsl[T]{s: d[:cap(d)], ti: g.ti}
}
func (g *gbuf[T]) HeaderAddr() uintptr { return uintptr(unsafe.Pointer(g.b)) }
func (g *gbuf[T]) Same(o Buf) bool {
	og, ok := o.(*gbuf[T])
	return ok && og.b == g.b
}
func (g *gbuf[T]) Real() any { return g.b }

type gchan[T signal.SignalTypes] struct {
	c  signal.C[T]
	ti *TypeInfo
}

func (g *gchan[T]) Channels() int            { return g.c.Channels() }
func (g *gchan[T]) Length() int              { return g.c.Length() }
func (g *gchan[T]) Capacity() int            { return g.c.Capacity() }
func (g *gchan[T]) Sample(i int) Val         { return toVal(g.ti.Kind, g.c.Sample(i)) }
func (g *gchan[T]) SetSample(i int, v Val)   { g.c.SetSample(i, fromVal[T](v)) }
func (g *gchan[T]) BufferIndex(c, i int) int { return g.c.BufferIndex(c, i) }

type gsl[T signal.SignalTypes] struct {
	s  []T
	ti *TypeInfo
}

func (g *gsl[T]) T() *TypeInfo     { return g.ti }
func (g *gsl[T]) Len() int         { return len(g.s) }
func (g *gsl[T]) Get(i int) Val    { return toVal(g.ti.Kind, g.s[i]) }
func (g *gsl[T]) Set(i int, v Val) { g.s[i] = fromVal[T](v) }
func (g *gsl[T]) IsNil() bool      { return g.s == nil }
func (g *gsl[T]) Real() any        { return g.s }

type gss[T signal.SignalTypes] struct {
	s  [][]T
	ti *TypeInfo
}

func (g *gss[T]) N() int      { return len(g.s) }
func (g *gss[T]) At(c int) Sl { return &gsl[T]{s: g.s[c], ti: g.ti} }
func (g *gss[T]) Real() any   { return g.s }
func (g *gss[T]) raw() [][]T  { return g.s }
func (g *gsl[T]) raw() []T    { return g.s }

type gpool[T signal.SignalTypes] struct {
	p  *signal.PoolAllocator[T]
	ti *TypeInfo
}

func (g *gpool[T]) Get() Buf  { return &gbuf[T]{b: g.p.Get(), ti: g.ti} }
func (g *gpool[T]) Put(b Buf) { g.p.Put(b.(*gbuf[T]).b) }
func (g *gpool[T]) Copy() Pool {
	cp := *g.p
	return &gpool[T]{p: &cp, ti: g.ti}
}

// TypeOps are the per-type constructors.
type TypeOps struct {
	*TypeInfo
	Alloc     func(a signal.Allocator) Buf
	PoolAlloc func(a signal.Allocator) Pool
	// MakeSl makes a slice of n elements; n < 0 makes a nil slice.
	MakeSl func(n int) Sl
	// MakeSS makes per-channel slices with the given lengths (<0: nil row;
	// nil lens: a nil outer slice, non-nil empty lens: an empty non-nil one).
	MakeSS func(lens []int) SS
	// MakeSSRowHidden makes per-channel slices whose rows each have `extra`
	// more elements of spare capacity behind them (nil rows stay nil); it
	// returns the visible rows and, for inspection/filling, the full rows.
	// MakeSSShared makes rows that are all prefixes of ONE backing array (returned too).
	MakeSSShared    func(lens []int, extra int) (SS, Sl)
	MakeSSRowHidden func(lens []int, extra int) (SS, SS)
	// MakeSlHidden makes a slice of n elements whose backing array has `extra`
	// more elements behind it (spare capacity); it returns the visible slice
	// and the whole backing array for inspection.
	MakeSlHidden func(n, extra int) (Sl, Sl)
	// MakeSSHidden makes per-channel slices like MakeSS, but the outer slice
	// has spare capacity holding `hidden` further allocated rows: it returns
	// the visible [][]T (len(lens) rows) and the whole backing (visible +
	// hidden rows) for inspection.
	MakeSSHidden func(lens, hidden []int) (SS, SS)
	// Bulk primitives used by the exhaustive scans: fill positions 0..n-1 of
	// a 1-channel buffer from raw carriers / read them back.
	Fill   func(b Buf, in []uint64)
	Drain  func(b Buf, out []uint64)
	SizeOf int
	// GrowCap is the capacity Go's append gives a plain []T of length l and
	// capacity c when n more elements are appended (no library code involved).
	GrowCap func(l, c, n int) int
	// Probes builds the steady-state operations of this type for C18.
	Probes func(ch, length int) []Probe
	// IdleCycle measures one pool get/put cycle that starts after a pause (C18).
	IdleCycle func(pause time.Duration, reps int) uint64
	// ZeroValue is new(signal.Buffer[T]): a buffer that no allocator made.
	ZeroValue func() Buf
	// SelfPair are the transfer functions between []T and Buffer[T].
	SelfPair *PairOps
}

func mkOps[T signal.SignalTypes](name string, named bool, base int) *TypeOps {
	var z T
	rt := reflect.TypeOf(z)
	ti := &TypeInfo{Name: name, Named: named, Base: base, Bits: int(rt.Size()) * 8}
	switch rt.Kind() {
	case reflect.Int, reflect.Int8, reflect.Int16, reflect.Int32, reflect.Int64:
		ti.Kind = KInt
	case reflect.Float32, reflect.Float64:
		ti.Kind = KFloat
	default:
		ti.Kind = KUint
	}
	k := ti.Kind
	ops := &TypeOps{
		TypeInfo:  ti,
		SizeOf:    int(rt.Size()),
		GrowCap:   func(l, c, n int) int { return cap(append(make([]T, l, c), make([]T, n)...)) },
		Probes:    typeProbes[T](name),
		IdleCycle: idleCycle[T],
		Alloc:     func(a signal.Allocator) Buf { return &gbuf[T]{b: signal.Alloc[T](a), ti: ti} },
		ZeroValue: func() Buf { return &gbuf[T]{b: new(signal.Buffer[T]), ti: ti} },
		PoolAlloc: func(a signal.Allocator) Pool { p := signal.PoolAlloc[T](a); return &gpool[T]{p: &p, ti: ti} },
		MakeSl: func(n int) Sl {
			if n < 0 {
				return &gsl[T]{s: nil, ti: ti}
			}
			return &gsl[T]{s: make([]T, n), ti: ti}
		},
		MakeSS: func(lens []int) SS {
			if lens == nil {
				return &gss[T]{s: nil, ti: ti} // a nil outer slice
			}
			s := make([][]T, len(lens))
			for i, n := range lens {
				if n >= 0 {
					s[i] = make([]T, n)
				}
			}
			return &gss[T]{s: s, ti: ti}
		},
		MakeSSShared: func(lens []int, extra int) (SS, Sl) {
			longest := 0
			for _, n := range lens {
				longest = max(longest, n)
			}
			arr := make([]T, longest+extra)
			rows := make([][]T, len(lens))
			for i, n := range lens {
				if n >= 0 {
					rows[i] = arr[:n]
				}
			}
			return &gss[T]{s: rows, ti: ti}, &gsl[T]{s: arr, ti: ti}
		},
		MakeSSRowHidden: func(lens []int, extra int) (SS, SS) {
			vis := make([][]T, len(lens))
			full := make([][]T, len(lens))
			for i, n := range lens {
				if n >= 0 {
					full[i] = make([]T, n+extra)
					vis[i] = full[i][:n]
				}
			}
			return &gss[T]{s: vis, ti: ti}, &gss[T]{s: full, ti: ti}
		},
		MakeSlHidden: func(n, extra int) (Sl, Sl) {
			all := make([]T, n+extra)
			return &gsl[T]{s: all[:n], ti: ti}, &gsl[T]{s: all, ti: ti}
		},
		MakeSSHidden: func(lens, hidden []int) (SS, SS) {
			all := make([][]T, len(lens)+len(hidden))
			for i, n := range append(append([]int(nil), lens...), hidden...) {
				if n >= 0 {
					all[i] = make([]T, n)
				}
			}
			return &gss[T]{s: all[:len(lens)], ti: ti}, &gss[T]{s: all, ti: ti}
		},
		Fill: func(b Buf, in []uint64) {
			d := b.(*gbuf[T]).b
			switch k {
			case KInt:
				for i, x := range in {
					d.SetSample(i, T(int64(x)))
				}
			case KUint:
				for i, x := range in {
					d.SetSample(i, T(x))
				}
			default:
				for i, x := range in {
					d.SetSample(i, T(math.Float64frombits(x)))
				}
			}
		},
		Drain: func(b Buf, out []uint64) {
			d := b.(*gbuf[T]).b
			switch k {
			case KInt:
				for i := range out {
					out[i] = uint64(int64(d.Sample(i)))
				}
			case KUint:
				for i := range out {
					out[i] = uint64(d.Sample(i))
				}
			default:
				for i := range out {
					out[i] = math.Float64bits(float64(d.Sample(i)))
				}
			}
		},
	}
	ops.SelfPair = mkPair[T, T](ops, ops)
	return ops
}

// PairOps are the four transfer functions for one (slice type, buffer type)
// pair. For Read/ReadStriped the buffer element type is A and the slice
// element type is B; for Write/WriteStriped the slice type is A and the
// buffer type B — i.e. always "from A to B".
type PairOps struct {
	A, B         *TypeOps
	Read         func(src Buf, dst Sl) int
	ReadStriped  func(src Buf, dst SS) int
	Write        func(src Sl, dst Buf) int
	WriteStriped func(src SS, dst Buf) int
	Probes       func(ch, length int) []Probe
}

func mkPair[A, B signal.SignalTypes](a, b *TypeOps) *PairOps {
	return &PairOps{A: a, B: b,
		Read:         func(src Buf, dst Sl) int { return signal.Read(src.(*gbuf[A]).b, dst.(*gsl[B]).s) },
		ReadStriped:  func(src Buf, dst SS) int { return signal.ReadStriped(src.(*gbuf[A]).b, dst.(*gss[B]).s) },
		Write:        func(src Sl, dst Buf) int { return signal.Write(src.(*gsl[A]).s, dst.(*gbuf[B]).b) },
		WriteStriped: func(src SS, dst Buf) int { return signal.WriteStriped(src.(*gss[A]).s, dst.(*gbuf[B]).b) },
		Probes:       pairProbes[A, B](a.Name, b.Name),
	}
}

// ConvOp is one instantiation of one of the nine conversions.
type ConvOp struct {
	Fn   string // e.g. "FloatAsSigned"
	S, D *TypeOps
	Call func(src, dst Buf) int
	// Probe builds a steady-state call on pre-allocated typed buffers (C18).
	Probe func(ch, length int) func()
}

func (c *ConvOp) Name() string { return fmt.Sprintf("%s[%s,%s]", c.Fn, c.S.Name, c.D.Name) }

func mkConv[S, D signal.SignalTypes](fn string, s, d *TypeOps, f func(*signal.Buffer[S], *signal.Buffer[D]) int) *ConvOp {
	return &ConvOp{Fn: fn, S: s, D: d, Call: func(src, dst Buf) int { return f(src.(*gbuf[S]).b, dst.(*gbuf[D]).b) }, Probe: convProbe(f)}
}

// ScaleOp is signal.Scale instantiated for one integer type.
type ScaleOp struct {
	T    *TypeOps
	Call func(h, l int) Val
}

func mkScale[T interface {
	~int | ~int8 | ~int16 | ~int32 | ~int64 | ~uint | ~uint8 | ~uint16 | ~uint32 | ~uint64 | ~uintptr
}](t *TypeOps) *ScaleOp {
	return &ScaleOp{T: t, Call: func(h, l int) Val {
		return toVal(t.Kind, signal.Scale[T](signal.BitDepth(h), signal.BitDepth(l)))
	}}
}

// AllConvs returns the 169 built-in instantiations followed by the extra ones
// over named element types.
func AllConvs() []*ConvOp { return append(append([]*ConvOp(nil), Convs...), ExtraConvs...) }

// AllPairs returns the 169 built-in transfer pairs followed by the extra ones.
func AllPairs() []*PairOps {
	var ps []*PairOps
	for i := range Pairs {
		for j := range Pairs[i] {
			ps = append(ps, Pairs[i][j])
		}
	}
	return append(ps, ExtraPairs...)
}

// SomeNamed are the named element types used next to the built-in ones by
// monitors that iterate over element types.
func SomeNamed() []*TypeOps {
	var ts []*TypeOps
	for _, t := range Types[NBuiltin:] {
		switch t.Name {
		case "NInt8", "NInt64", "NUint16", "NFloat32":
			ts = append(ts, t)
		}
	}
	return ts
}

// ElemTypes returns the 13 built-in element types plus SomeNamed.
func ElemTypes() []*TypeOps {
	return append(append([]*TypeOps(nil), Types[:NBuiltin]...), SomeNamed()...)
}

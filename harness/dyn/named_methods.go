package dyn

import (
	"strconv"

	"pipelined.dev/signal"
)

// Some of the named element types carry methods of the kind a library might
// probe for by interface assertion (a self-declared bit depth, sizes,
// lengths, a String form). The element type's width decides the bit depth of
// its buffers whatever such methods say; the other named types stay
// method-less.

func (NInt16) BitDepth() signal.BitDepth   { return 12 }
func (NInt32) BitDepth() signal.BitDepth   { return signal.BitDepth24 }
func (NInt64) BitDepth() signal.BitDepth   { return 48 }
func (NUint8) BitDepth() signal.BitDepth   { return 7 }
func (NUint32) BitDepth() signal.BitDepth  { return 20 }
func (NFloat64) BitDepth() signal.BitDepth { return 53 }

func (NInt16) Bits() int  { return 12 }
func (NInt32) Bits() int  { return 24 }
func (NUint32) Bits() int { return 20 }

func (NInt32) Size() int     { return 3 }
func (NInt32) Len() int      { return 1 }
func (NFloat64) Len() int    { return 1 }
func (NUint8) Channels() int { return 1 }

func (v NInt32) String() string   { return "pcm24(" + strconv.Itoa(int(v)) + ")" }
func (v NFloat64) String() string { return strconv.FormatFloat(float64(v), 'g', -1, 64) }
func (v NUint8) String() string   { return strconv.Itoa(int(v)) }

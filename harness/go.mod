module verifharness

go 1.23

require (
	github.com/anishathalye/porcupine v1.3.0
	golang.org/x/exp v0.0.0-20230817173708-d852ddb80c63
	pipelined.dev/signal v0.0.0
)

replace pipelined.dev/signal => /repo
